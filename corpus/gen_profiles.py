#!/usr/bin/env python3
"""Generates the static multi-key workload of /verif/corpus/generated (committed).

The repository's fixtures almost never put more than one key under one `propertyConstraints`,
so map-iteration order rarely matters for them. These profiles have 2..6 sibling keys with
quantified (`nested`, `atLeast`, `atMost`) constraints, combined with and / or / not / if to
depth 3, and small matching graphs. Deterministic: python3 gen_profiles.py regenerates the
same files.
"""
import json, os, random, shutil

NS = "http://sim.example/vocab#"
ROOT = os.path.join(os.path.dirname(os.path.abspath(__file__)), "generated")
PROPS = ["a", "b", "c", "d", "e", "f", "g"]


def scalar_constraint(r):
    k = r.randrange(6)
    if k == 0:
        return {"minCount": r.randrange(0, 3)}
    if k == 1:
        return {"maxCount": r.randrange(1, 3)}
    if k == 2:
        return {"in": r.sample([1, 2, 3, "x", "y", True], r.randrange(1, 4))}
    if k == 3:
        return {"pattern": r.choice(["^x", "y$", "[0-9]+"])}
    if k == 4:
        return {"minLength": r.randrange(1, 4)}
    return {"datatype": r.choice(["xsd.string", "xsd.integer", "xsd.boolean"])}


def prop_constraints(r, depth, nkeys=None):
    n = nkeys or r.randrange(2, 5)
    keys = r.sample(PROPS, min(n, len(PROPS)))
    out = {}
    for k in keys:
        c = {}
        q = r.randrange(10)
        if depth > 0 and q < 5:
            c["nested"] = expression(r, depth - 1)
        elif depth > 0 and q < 6:
            c["atLeast"] = {"count": r.randrange(1, 3), "validation": expression(r, depth - 1)}
        elif depth > 0 and q < 7:
            c["atMost"] = {"count": r.randrange(1, 3), "validation": expression(r, depth - 1)}
        else:
            c.update(scalar_constraint(r))
            if r.random() < 0.3:
                c.update(scalar_constraint(r))
        out["ex." + k] = c
    return out


def expression(r, depth):
    q = r.randrange(10)
    if depth <= 0 or q < 5:
        return {"propertyConstraints": prop_constraints(r, depth)}
    if q < 6:
        return {"and": [expression(r, depth - 1) for _ in range(r.randrange(2, 4))]}
    if q < 8:
        return {"or": [expression(r, depth - 1) for _ in range(r.randrange(2, 4))]}
    if q < 9:
        return {"not": expression(r, depth - 1)}
    e = {"if": expression(r, depth - 1), "then": expression(r, depth - 1)}
    if r.random() < 0.5:
        e["else"] = expression(r, depth - 1)
    return e


def yaml_dump(v, ind=0):
    sp = "  " * ind
    if isinstance(v, dict):
        lines = []
        for k, x in v.items():
            if isinstance(x, (dict, list)) and x and not (isinstance(x, list) and all(not isinstance(e, (dict, list)) for e in x)):
                lines.append(f"{sp}{k}:")
                lines.append(yaml_dump(x, ind + 1))
            else:
                lines.append(f"{sp}{k}: {scalar(x)}")
        return "\n".join(lines)
    if isinstance(v, list):
        lines = []
        for x in v:
            body = yaml_dump(x, ind + 1).lstrip()
            lines.append(f"{sp}- {body}")
        return "\n".join(lines)
    return sp + scalar(v)


def scalar(x):
    if isinstance(x, bool):
        return "true" if x else "false"
    if isinstance(x, (int, float)):
        return str(x)
    if isinstance(x, list):
        return "[" + ", ".join(scalar(e) for e in x) + "]"
    if isinstance(x, dict) and not x:
        return "{}"
    return json.dumps(x)


def profile(r, idx):
    nval = r.randrange(1, 4)
    vals = {}
    levels = {"violation": [], "warning": [], "info": []}
    for i in range(nval):
        name = f"validation{i+1}"
        body = {"targetClass": "ex." + r.choice(["Test", "Other"]), "message": f"generated {idx}/{i}"}
        top = r.randrange(10)
        if top < 4:
            # the shape that makes report bytes depend on key order today: not/or over >= 3 quantified siblings
            pcs = {}
            for k in r.sample(PROPS, r.randrange(3, 5)):
                pcs["ex." + k] = {"nested": {"propertyConstraints": prop_constraints(r, 0, r.randrange(1, 3))}}
            inner = {"propertyConstraints": pcs}
            body.update({"not": inner} if r.random() < 0.6 else {"or": [inner, expression(r, 1)]})
        else:
            body.update(expression(r, r.randrange(1, 3)))
        vals[name] = body
        levels[r.choice(["violation", "violation", "warning", "info"])].append(name)
    doc = {"profile": f"generated-{idx}"}
    for lv, names in levels.items():
        if names:
            doc[lv] = names
    doc["validations"] = vals
    doc["prefixes"] = {"ex": NS}
    if r.random() < 0.3:
        doc["prefixes"]["ey"] = "http://sim.example/other#"
        doc["prefixes"]["ez"] = "http://sim.example/third#"
    return "#%Validation Profile 1.0\n" + yaml_dump(doc) + "\n"


def node(r, nid, depth, cls):
    n = {"@id": NS + nid, "@type": [NS + cls]}
    for p in r.sample(PROPS, r.randrange(2, 6)):
        q = r.randrange(10)
        if depth > 0 and q < 5:
            kids = [node(r, f"{nid}/{p}{i}", depth - 1, "Nested") for i in range(r.randrange(1, 3))]
            n[NS + p] = kids if len(kids) > 1 or r.random() < 0.5 else kids[0]
        else:
            vals = [{"@value": r.choice([1, 2, 3, "x", "y", "xy1", True, False])} for _ in range(r.randrange(1, 3))]
            n[NS + p] = vals if len(vals) > 1 else vals[0]
    return n


def graph(r):
    return [node(r, f"n{i}", r.randrange(0, 3), r.choice(["Test", "Test", "Other"])) for i in range(r.randrange(1, 6))]


# profiles whose compilation or evaluation takes longer than 0.6 s with the shipped binary
# (measured once); they would only slow every batch down
SLOW = set("g002 g008 g010 g013 g018 g028 g031 g035 g036 g039 g045 g047 g050 g053 g055 g065 g069 g079 g084 g086 g088 g089 g090".split())


def main():
    if os.path.isdir(ROOT):
        shutil.rmtree(ROOT)
    for idx in range(96):
        r = random.Random(1000 + idx)
        if f"g{idx:03d}" in SLOW:
            continue
        d = os.path.join(ROOT, f"g{idx:03d}")
        os.makedirs(d)
        with open(os.path.join(d, "profile.yaml"), "w") as f:
            f.write(profile(r, idx))
        for j in range(3):
            with open(os.path.join(d, f"data{j}.jsonld"), "w") as f:
                json.dump(graph(r), f, indent=2)
                f.write("\n")


if __name__ == "__main__":
    main()
