"""./check --replay <file>: rebuild from /repo's current tree and re-execute exactly one recorded run."""
import base64, hashlib, json, os, sys

import vlib
from vlib import HarnessError, log


def remap(sc, p):
    """Replay files name inputs under /repo or /verif; the run reads them from the fresh scratch copy."""
    if p.startswith("/repo/"):
        return os.path.join(sc.src, os.path.relpath(p, "/repo"))
    return p


def replay_file(path):
    import main as M
    rf = json.load(open(path))
    prop, eng = rf["property"], rf.get("engine", "")
    want = rf["violation"]
    sc = vlib.Scratch()
    sc.prepare(plain=False)
    sc.corpus()
    log("replaying %s (%s, engine %s); recorded on tree %s, current tree %s" % (path, prop, eng, rf.get("tree"), sc.tree_hash))
    again = False
    detail = ""
    if eng in ("A", "A-race"):
        race = eng == "A-race"
        plain = sc.build("./simharness", "simharness")
        binary = sc.build("./simharness", "simharness-race", race=True) if race else plain
        os.environ["SIM_REFBIN"] = plain
        vlib.ENV["SIM_REFBIN"] = plain
        for i in range(5 if race else 1):
            r = vlib.replay_once(sc, binary, path, race)
            v = r.get("violation")
            detail = json.dumps(v)[:1500] if v else "no violation; outcomes=%s" % json.dumps(r.get("outcomes"))[:600]
            if vlib.same_violation(r, want):
                again = True
                break
    elif eng == "A-free":
        plain = sc.build("./simharness", "simharness")
        racebin = sc.build("./simharness", "simharness-race", race=True)
        vlib.ENV["SIM_REFBIN"] = plain
        tmp = os.path.join(sc.dir, "free.json")
        json.dump(dict(rf, decisions={"switches": [], "maps": [], "fails": []}), open(tmp, "w"))
        for i in range(100):
            args = ["batch", "-replay", tmp, "-free", "-corpus", sc.corpus_path, "-census", sc.census_path, "-refdir", os.path.join(sc.dir, "refcache"), "-racelog", os.path.join(sc.dir, "race", "free%d" % i)]
            rc, lines, err = vlib.run_chunk(racebin, args, {"GORACE": "log_path=%s halt_on_error=0 atexit_sleep_ms=0" % os.path.join(sc.dir, "race", "free%d" % i), "GOMAXPROCS": "8"}, 600)
            r = next((l for l in lines if "sig" in l), {})
            if vlib.same_violation(r, want):
                again, detail = True, "recurred in free-running repetition %d" % (i + 1)
                break
        else:
            detail = "did not recur in 100 free-running repetitions"
    elif eng == "unsimulated":
        import re, subprocess
        acv = sc.build("./cmd", "acv-plain", plain=True) if os.path.isdir(sc.plain) else None
        if acv is None:
            sc2 = vlib.Scratch()
            sc2.prepare(plain=True)
            acv = sc2.build("./cmd", "acv-plain", plain=True)
        ppath = remap(sc, rf["profile"]) if os.path.isabs(rf["profile"]) else os.path.join(sc.src, rf["profile"])
        outs = set()
        for _ in range(max(20, rf.get("runs", 6) * 3)):
            argv = [acv, rf["what"], ppath] + ([remap(sc, rf["data"])] if rf["what"] == "validate" else [])
            p = subprocess.run(argv, capture_output=True, timeout=300)
            outs.add((p.returncode, hashlib.sha256(re.sub(rb'"dateCreated": "[^"]*"', b'"dateCreated": "T"', p.stdout)).hexdigest()))
        again = len(outs) > 1
        detail = "%d distinct outputs of the uninstrumented binary" % len(outs)
    elif eng == "C-generate":
        simacv = sc.build("./cmd", "simacv")
        prof = {"id": rf["profile_id"], "path": remap(sc, rf["profile"]) if os.path.isabs(rf["profile"]) else rf["profile"]}
        text = open(prof["path"] if os.path.isabs(prof["path"]) else os.path.join(sc.src, prof["path"]), "rb").read()
        img = M.disk_image({"/work/profile.yaml": (text, 0o644)})
        a = M.run_simacv(sc, simacv, ["generate", "profile.yaml"], img, {})
        b = M.run_simacv(sc, simacv, ["generate", "profile.yaml"], img, {"SIM_MAPSEED": str(rf["mapseed"])})
        again = (a[0], a[1]) != (b[0], b[1])
        detail = "canonical order: rc=%d sha=%s; SIM_MAPSEED=%s: rc=%d sha=%s" % (a[0], hashlib.sha256(a[1]).hexdigest()[:12], rf["mapseed"], b[0], hashlib.sha256(b[1]).hexdigest()[:12])
    elif prop == "C04" and eng == "direct":
        harness = sc.build("./simharness", "simharness")
        rf2 = dict(rf, profile_path=remap(sc, rf["profile_path"]), data_path=remap(sc, rf["data_path"]))
        if rf2["violation"]["fault"].startswith("file:"):
            rf2["violation"] = dict(rf2["violation"], fault="file:" + remap(sc, rf2["violation"]["fault"][5:]))
        tmp = os.path.join(sc.dir, "replay.json")
        json.dump(rf2, open(tmp, "w"))
        rc, lines, err = vlib.run_chunk(harness, ["c04", "-corpus", sc.corpus_path, "-replay", tmp], {}, 600)
        if not lines:
            raise HarnessError("c04 replay failed: " + err[-1000:])
        again = lines[0].get("class") == want["class"]
        detail = json.dumps(lines[0])
    elif prop == "C04":
        simacv = sc.build("./cmd", "simacv")
        harness = sc.build("./simharness", "simharness")
        # recreate the faulted text with the driver's operator, then run the CLI on it
        v = rf["violation"]
        data = open(remap(sc, rf["data_path"]), "rb").read()
        prof = open(remap(sc, rf["profile_path"]), "rb").read()
        faults = []
        if v["fault"].startswith("io:"):
            faults = [{"op": "read", "path": "/work/data.jsonld", "nth": 1, "err": v["fault"][3:]}]
        elif v["fault"].startswith("trunc:"):
            data = data[: int(v["fault"].split(":")[1])]
        else:
            tmp = os.path.join(sc.dir, "replay.json")
            json.dump(dict(rf, profile_path=remap(sc, rf["profile_path"]), data_path=remap(sc, rf["data_path"])), open(tmp, "w"))
            rc, lines, err = vlib.run_chunk(harness, ["c04", "-corpus", sc.corpus_path, "-replay", tmp, "-emit", os.path.join(sc.dir, "faulted.txt")], {}, 600)
            data = open(os.path.join(sc.dir, "faulted.txt"), "rb").read()
        argv = ["validate", "profile.yaml", "data.jsonld"] + (["out.json"] if "out_" in v["entry"] else [])
        rc, so, se, img = M.run_simacv(sc, simacv, argv, M.disk_image({"/work/profile.yaml": (prof, 0o644), "/work/data.jsonld": (data, 0o644)}, faults), {"SIM_NOW": "975369600"})
        again = rc == 0 or b'"conforms"' in so
        detail = "exit status %d, stdout %d bytes" % (rc, len(so))
    elif prop == "C18":
        import c18
        simacv = sc.build("./cmd", "simacv")
        h = rf["history"]
        for st in h["steps"]:
            if st.get("src"):
                st["src"] = remap(sc, st["src"])
        ex = c18.Exec(sc, simacv, {})
        rec, v = ex.run_history(h)
        again = bool(v) and v["sig"] == want["sig"]
        detail = json.dumps(v) if v else "no violation; steps: " + json.dumps(rec["steps"])[:800]
    elif prop == "C11":
        import c11
        testbin = sc.build("./simbubble", "simbubble.test", go=vlib.GO126, test=True)
        rd = lambda p: open(os.path.join(sc.src, p)).read()
        job = {"seed": rf["seed"], "k": 1, "profile": rd("test/data/integration/profile1/profile.yaml"), "data": rd("test/data/integration/profile1/negative.data.jsonld"),
               "entries": c11.ENTRIES, "failures": [{"id": "none", "kind": "none"}], "caps": c11.CAPS, "consumers": ["eager"],
               "event_names": sc.census["event_types"], "operations": sc.census["operations"]}
        base = c11.run_bubbles(sc, testbin, job, 4)
        ff, ffsteps = {}, {}
        for r in base:
            c = r["cell"]
            if len(r["events"] or []) > len(ff.get(c["entry"], [])):
                ff[c["entry"]] = r["events"]
        cell = rf["cell"]
        for _ in range(6 if sc.census.get("selects") else 1):
            if rf.get("prefix"):
                px = rf["prefix"]
                fulljob = dict(job, seed=px["seed"], k=px["k"], failures=c11.failures(sc), consumers=c11.CONSUMERS)
                one = c11.run_prefix(sc, testbin, fulljob, px["shard"], px["nshard"], px["idx"])
                rr = [one] if one else []
                if not rr:
                    break
            else:
                rr = c11.run_bubbles(sc, testbin, dict(job, replay=cell), 1)
            found = ["%s:%s:%s" % (cls, sd, cell["failure"]["id"]) for cls, sd, _ in c11.judge(rr[0], ff.get(cell["entry"]), sc.census["operations"], None)]
            again = want["sig"] in found
            if again:
                break
        detail = "events=%s returned=%s closed=%s deadlock=%s found=%s" % (rr[0]["events"], rr[0].get("returned"), rr[0].get("closed"), rr[0].get("deadlock"), found)
    else:
        raise HarnessError("unknown replay file kind: property=%s engine=%s" % (prop, eng))
    log("replay result:", detail)
    if again:
        print("VIOLATION property=%s replay=%s" % (prop, path), flush=True)
        return 1
    print("replay: the recorded violation (%s) did not recur on the current tree" % want.get("sig"))
    return 0
