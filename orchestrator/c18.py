"""C18 (engine C): histories of CLI invocations over one simulated disk.

Every `run` step is a real fresh process of the instrumented CLI (simacv); the reference for
the step is `simacv __ref ...` in another fresh process on the same disk image and the same
SIM_NOW (library called directly, no CLI code)."""
import base64, copy, hashlib, json, os, random, shutil, subprocess, tempfile
from concurrent.futures import ThreadPoolExecutor

import vlib
from vlib import HarnessError, log

NOW = "975369600"
WS = b" \t\r\n"


def b64(b):
    return base64.b64encode(b).decode()


def unb64(s):
    return base64.b64decode(s or "")


class Disk:
    """The driver's view of the simulated disk between invocations."""

    def __init__(self):
        self.files = {"/work": {"data": "", "mode": 0o755, "dir": True, "has_durable": True}}

    def put(self, path, data, mode=0o644, mtime=None):
        self.files[path] = {"data": b64(data), "mode": mode, "durable": b64(data), "has_durable": True, "mtime": int(NOW) if mtime is None else mtime}

    def mkdir(self, path, mode=0o755):
        self.files[path] = {"data": "", "mode": mode, "dir": True, "has_durable": True}

    def remove(self, path):
        for k in list(self.files):
            if k == path or k.startswith(path + "/"):
                del self.files[k]

    def get(self, path):
        f = self.files.get(path)
        if f is None or f.get("dir"):
            return None
        return unb64(f["data"])

    def image(self, faults=None):
        return {"files": copy.deepcopy(self.files), "faults": faults or []}

    def load(self, img):
        self.files = {}
        for p, f in img["files"].items():
            if p == "/":
                continue
            self.files[p] = f

    def dirty_restart(self):
        """Only durable content survives."""
        for p in list(self.files):
            f = self.files[p]
            if f.get("dir"):
                continue
            if not f.get("has_durable"):
                del self.files[p]
            else:
                f["data"] = f.get("durable", "")


def gen_history(rnd, pairs, hid):
    """A seeded history: a list of explicit steps (nothing is drawn at execution time)."""
    n = rnd.randrange(2, 11)
    p1 = rnd.choice(pairs)
    p2 = rnd.choice(pairs)
    steps = [{"op": "env", "what": "put", "path": "/work/p1.yaml", "src": p1[0]}, {"op": "env", "what": "put", "path": "/work/d1.jsonld", "src": p1[1]},
             {"op": "env", "what": "put", "path": "/work/p2.yaml", "src": p2[0]}, {"op": "env", "what": "put", "path": "/work/d2.jsonld", "src": p2[1]}]
    out = rnd.choice(["out.json", "out.json", "reports/out.json", "nodir/out.json"])
    if out.startswith("reports/"):
        steps.append({"op": "env", "what": "mkdir", "path": "/work/reports"})
    for i in range(n):
        k = rnd.randrange(100)
        which = rnd.choice(["1", "2"])
        if i > 0 and rnd.randrange(100) < 14:
            # an input path gets another text between two invocations (a checkout, `cp -p`, `mv`, a re-pointed link):
            # with an older, an equal or a newer modification time than what the path held before. What an
            # invocation prints is a function of what its input paths hold now, not of what they held earlier.
            other = "2" if which == "1" else "1"
            kind = rnd.choice(["p", "p", "d"])
            src = (p2 if which == "1" else p1)[0 if kind == "p" else 1] if rnd.randrange(100) < 80 else (p1 if which == "1" else p2)[0 if kind == "p" else 1]
            steps.append({"op": "env", "what": "put", "path": "/work/%s%s.%s" % (kind, which, "yaml" if kind == "p" else "jsonld"), "src": src,
                          "mtime_off": rnd.choice([-86400, -1, 0, 0, 3600]), "swap": True})
            if rnd.randrange(100) < 70:
                steps.append({"op": "run", "argv": rnd.choice([["validate", "p%s.yaml" % which, "d%s.jsonld" % which], ["validate", "p%s.yaml" % which, "d%s.jsonld" % which, out],
                                                               ["generate", "p%s.yaml" % which]])})
        if k < 22:
            state = rnd.choice(["absent", "empty", "short", "longer", "longer", "other_report", "readonly", "directory",
                                "same_report_leading_blank", "same_report_crlf", "same_report_one_byte_off", "same_report_plus_newline"])
            if state.startswith("same_report"):
                # needs the report of this pair (any earlier successful validate gives it) and a re-run of the same pair on OUT
                steps.append({"op": "run", "argv": ["validate", "p%s.yaml" % which, "d%s.jsonld" % which]})
            steps.append({"op": "env", "what": "out_state", "path": "/work/" + out, "state": state, "fill": rnd.choice(["X", "}", "Z9"]), "extra": rnd.randrange(1, 4000), "which": which})
            if state.startswith("same_report"):
                steps.append({"op": "run", "argv": ["validate", "p%s.yaml" % which, "d%s.jsonld" % which, out]})
        elif k < 60:
            target = out
            if rnd.randrange(100) < 7:
                # the output path is one of the inputs (report written over the data or the profile)
                target = rnd.choice(["d%s.jsonld" % which, "p%s.yaml" % which])
            st = {"op": "run", "argv": ["validate", "p%s.yaml" % which, "d%s.jsonld" % which, target]}
            f = rnd.randrange(100)
            if f < 8:
                st["fault"] = {"op": "write", "path": "/work/" + out, "nth": 1, "err": "ENOSPC", "after": rnd.choice([0, 1, 37, 1000, -1])}
            elif f < 13:
                st["fault"] = {"op": "sync", "path": "/work/" + out, "nth": 1, "err": "EIO"}
            elif f < 17:
                st["fault"] = {"op": "open", "path": "/work/" + out, "nth": 1, "err": "EACCES"}
            elif f < 21:
                st["fault"] = {"op": "read", "path": "/work/" + rnd.choice(["p%s.yaml", "d%s.jsonld"]) % which, "nth": 1, "err": "EIO"}
            elif f < 33:
                # the process dies at this operation (crash at an arbitrary point of the write path)
                st["fault"] = rnd.choice([{"op": "write", "path": "*", "nth": 1, "err": "CRASH", "after": rnd.choice([0, 1, 200, 100000])},
                                          {"op": "sync", "path": "*", "nth": 1, "err": "CRASH"}, {"op": "close", "path": "*", "nth": 1, "err": "CRASH"},
                                          {"op": "rename", "path": "*", "nth": 1, "err": "CRASH"}, {"op": "open", "path": "/work/" + out, "nth": 1, "err": "CRASH"},
                                          {"op": "stat", "path": "*", "nth": 1, "err": "CRASH"}])
                st["restart"] = rnd.choice(["dirty", "clean"])
            steps.append(st)
            if (st.get("fault") or i == 0) and rnd.randrange(100) < 60:
                # follow a (possibly) failed write with a clean retry of the OTHER pair on the same path:
                # whatever the failed attempt left behind must not leak into the next report
                other = "2" if which == "1" else "1"
                steps.append({"op": "env", "what": "out_state", "path": "/work/" + out, "state": rnd.choice(["absent", "empty", "short"]), "fill": "X", "extra": 1, "which": other})
                steps.append({"op": "run", "argv": ["validate", "p%s.yaml" % other, "d%s.jsonld" % other, out]})
        elif k < 72:
            st = {"op": "run", "argv": ["validate", "p%s.yaml" % which, "d%s.jsonld" % which]}
            if rnd.randrange(100) < 12:
                st["fault"] = {"op": "read", "path": "/work/" + rnd.choice(["p%s.yaml", "d%s.jsonld"]) % which, "nth": 1, "err": "EIO"}
            steps.append(st)
        elif k < 80:
            steps.append({"op": "run", "argv": ["generate", "p%s.yaml" % which]})
        elif k < 88:
            steps.append({"op": "run", "argv": ["normalize", "d%s.jsonld" % which]})
        elif k < 94:
            steps.append({"op": "run", "argv": rnd.choice([["validate", "p1.yaml"], ["validate"], ["generate"], ["normalize", "d1.jsonld", "x"], ["frobnicate", "p1.yaml"],
                                                           ["validate", "p1.yaml", "d1.jsonld", out, "extra"], ["validate", "missing.yaml", "d1.jsonld"], ["generate", "missing.yaml"]])})
        else:
            steps.append({"op": "dirty_restart"})
    return {"id": hid, "steps": steps}


def norm_sha(b):
    """Hash of the bytes with the dateCreated value blanked (the shipped CLI reads the real clock)."""
    import re
    if b is None:
        return None
    return hashlib.sha256(re.sub(rb'"dateCreated": "[^"]*"', b'"dateCreated": "T"', b)).hexdigest()[:16]


def rstrip_ws(b):
    return b.rstrip(WS)


class Exec:
    def __init__(self, sc, simacv, cache):
        self.sc, self.simacv, self.cache = sc, simacv, cache
        self.procs = 0
        self.ref_procs = 0

    def text(self, src):
        if src not in self.cache:
            self.cache[src] = open(src, "rb").read()
        return self.cache[src]

    def run_history(self, h):
        """Executes a history; returns (record, violation or None)."""
        import main as M
        disk = Disk()
        rec = {"id": h["id"], "steps": [], "faults_fired": {}, "probes": {}, "nontrivial": False}
        lastreport = {}

        def probe(k):
            rec["probes"][k] = rec["probes"].get(k, 0) + 1

        for si, st in enumerate(h["steps"]):
            if st["op"] == "env":
                if st["what"] == "put":
                    disk.put(st["path"], self.text(st["src"]), mtime=int(NOW) + st.get("mtime_off", 0))
                    if st.get("swap"):
                        probe("input_path_holds_another_text")
                        rec["nontrivial"] = True
                elif st["what"] == "mkdir":
                    disk.mkdir(st["path"])
                elif st["what"] == "out_state":
                    path, state = st["path"], st["state"]
                    par = os.path.dirname(path)
                    if par not in disk.files:
                        rec["steps"].append({"env": "skipped", "path": st["path"]})
                        continue  # OUT lives in a missing directory: nothing to prepare
                    disk.remove(path)
                    ref_len = len(lastreport.get(st["which"], b"")) or 1200
                    if state == "empty":
                        disk.put(path, b"")
                    elif state == "short":
                        disk.put(path, b"{\"a\":1}")
                    elif state == "longer":
                        fill = st["fill"].encode()
                        n = ref_len + st["extra"]
                        disk.put(path, (fill * (n // len(fill) + 1))[:n])
                    elif state == "other_report":
                        other = lastreport.get("2" if st["which"] == "1" else "1")
                        disk.put(path, other if other else b"[\n  {\n    \"old\": \"report\"\n  }\n]\n" * 40)
                    elif state.startswith("same_report"):
                        # the file already holds (almost) the report the next run of this pair will write
                        same = lastreport.get(st["which"])
                        if not same:
                            disk.put(path, b"")
                        elif state == "same_report_leading_blank":
                            disk.put(path, b"\n" + same)
                        elif state == "same_report_crlf":
                            disk.put(path, same.replace(b"\n", b"\r\n"))
                        elif state == "same_report_plus_newline":
                            disk.put(path, same + b"\n")
                        else:
                            k = len(same) // 2
                            disk.put(path, same[:k] + (b"X" if same[k:k + 1] != b"X" else b"Y") + same[k + 1:])
                    elif state == "readonly":
                        disk.put(path, b"read-only prior content\n", 0o444)
                    elif state == "directory":
                        disk.mkdir(path)
                    rec["nontrivial"] = rec["nontrivial"] or state != "absent"
                    probe("prior_state_" + state)
                rec["steps"].append({"env": st.get("state") or st["what"], "path": st["path"]})
                continue
            if st["op"] == "dirty_restart":
                disk.dirty_restart()
                probe("dirty_restart")
                rec["steps"].append({"dirty_restart": True})
                continue
            # ---- run step
            argv = st["argv"]
            faults = [dict(st["fault"])] if st.get("fault") else []
            before = copy.deepcopy(disk.files)
            img = disk.image(faults)
            rc, so, se, outimg = M.run_simacv(self.sc, self.simacv, argv, img, {"SIM_NOW": NOW})
            self.procs += 1
            if rc == 97 or outimg is None:
                raise HarnessError("simacv did not produce a disk image (rc=%d): %s" % (rc, se[-500:]))
            disk.load(outimg)
            fired = [f for f in outimg.get("faults", []) if f.get("fired")]
            for f in fired:
                key = "%s_%s" % (f["op"], f["err"])
                rec["faults_fired"][key] = rec["faults_fired"].get(key, 0) + 1
                rec["nontrivial"] = True
            cmd = argv[0] if argv else ""
            argok = (cmd == "validate" and len(argv) in (3, 4)) or (cmd in ("generate", "normalize") and len(argv) == 2)
            ref = None
            if argok:
                refargv = ["__ref", cmd] + argv[1:3] if cmd == "validate" else ["__ref", cmd, argv[1]]
                rrc, rso, rse, _ = M.run_simacv(self.sc, self.simacv, refargv, {"files": before, "faults": []}, {"SIM_NOW": NOW})
                self.ref_procs += 1
                try:
                    ref = json.loads([l for l in rso.decode("utf8", "replace").split("\n") if l.startswith("@@SIMREF@@ ")][-1][11:])
                except (ValueError, IndexError):
                    raise HarnessError("reference process failed (rc=%d): %s" % (rrc, rse[-500:]))
            ref_ok = bool(ref) and not ref["err"] and not ref.get("panic") and not ref.get("missing")
            outmode = cmd == "validate" and len(argv) == 4
            outpath = "/work/" + argv[3] if outmode else None
            prior = before.get(outpath) if outmode else None
            prior_kind = "absent"
            if prior is not None:
                prior_kind = "directory" if prior.get("dir") else ("readonly" if prior["mode"] & 0o200 == 0 else
                                                                  ("empty" if not prior["data"] else "content"))
            if outmode and os.path.dirname(outpath) not in before:
                prior_kind = "missing_directory"
            stepres = {"argv": argv, "rc": rc, "stdout_len": len(so), "fault": st.get("fault"), "fired": bool(fired), "ref_ok": ref_ok, "prior": prior_kind if outmode else None,
                       "stdout_norm": norm_sha(so), "out_norm": norm_sha(disk.get(outpath)) if outmode else None}
            rec["steps"].append(stepres)
            viol = None

            def V(cls, sigx, detail):
                return {"step": si, "class": cls, "sig": cls + ":" + sigx, "detail": detail, "argv": argv}

            has_report = b'"conforms"' in so
            if argok and ref_ok and not fired and prior_kind not in ("readonly", "directory", "missing_directory"):
                # success path
                want = ref["out"].encode()
                if cmd == "validate":
                    lastreport[argv[1][1]] = want
                if rc != 0:
                    viol = V("nonzero_exit_on_success", cmd, "exit status %d, stderr: %s" % (rc, se[-300:].decode("utf8", "replace")))
                elif outmode:
                    got = disk.get(outpath)
                    if got is None or rstrip_ws(got) != rstrip_ws(want):
                        gl = -1 if got is None else len(got)
                        if prior_kind == "content":
                            pl = len(unb64(prior["data"]))
                            prior_kind = "longer_content" if pl > len(want) else "shorter_content"
                        viol = V("file_content_mismatch", prior_kind, "output file holds %d bytes, the library's report has %d (prior state: %s)" % (gl, len(want), prior_kind))
                    elif so.strip(WS):
                        viol = V("stdout_not_empty_in_out_mode", cmd, "stdout has %d bytes although the report went to the file" % len(so))
                    else:
                        probe("out_mode_success_prior_" + prior_kind)
                        if prior is not None and not prior.get("dir") and len(unb64(prior["data"])) > len(want):
                            probe("existing_file_longer_than_report")
                        f = disk.files.get(outpath)
                        if f and f.get("has_durable") and rstrip_ws(unb64(f.get("durable"))) == rstrip_ws(want):
                            probe("report_durable_after_success")
                elif rstrip_ws(so) != rstrip_ws(want):
                    viol = V("stdout_mismatch", cmd, "stdout (%d bytes) differs from the library value (%d bytes)" % (len(so), len(want)))
                else:
                    probe("stdout_success_" + cmd)
            elif argok and ref_ok and not fired and prior_kind in ("readonly", "directory", "missing_directory"):
                want = ref["out"].encode()
                got = disk.get(outpath)
                if rc == 0:
                    # succeeding is fine (e.g. a privileged user) but then the file must hold the report
                    if got is None or rstrip_ws(got) != rstrip_ws(want):
                        viol = V("exit_status_zero_on_failure", "out_" + prior_kind, "exit 0 although the output path is %s and does not hold the report" % prior_kind)
                else:
                    if has_report:
                        viol = V("report_on_stdout_on_failure", "out_" + prior_kind, "report printed on stdout although writing the file failed")
                    elif prior_kind == "readonly" and disk.files.get(outpath, {}).get("data") != prior["data"]:
                        viol = V("readonly_out_modified", "readonly", "a read-only output file was modified")
                    else:
                        probe("failure_out_" + prior_kind)
            else:
                # failure path: wrong arguments, reference fails, or an injected fault fired
                cause = "bad_arguments" if not argok else ("library_error" if not ref_ok else "fault_%s_%s" % (fired[0]["op"], fired[0]["err"]))
                if rc == 0:
                    viol = V("exit_status_zero_on_failure", cause, "exit status 0 (%s)" % cause)
                elif has_report:
                    viol = V("report_on_stdout_on_failure", cause, "a report was printed on stdout (%s)" % cause)
                else:
                    probe("failure_" + cause)
            if viol:
                return rec, viol
            if fired and fired[0]["err"] == "CRASH" and st.get("restart") == "dirty":
                disk.dirty_restart()
                probe("dirty_restart_after_crash")
        return rec, None


def real_replay(sc, acv_plain, ex, h, simrec):
    """Model validation: the same fault-free history with the uninstrumented binary on a real
    directory; exit status, stdout and file bytes must match what the simulated disk gave
    (modulo the dateCreated line: the shipped CLI reads the real clock)."""
    import re
    d = tempfile.mkdtemp(prefix="real-", dir=sc.dir)
    try:
        sim_steps = [s for s in simrec["steps"]]
        j = 0
        mism = []
        lastreport = {}
        for st in h["steps"]:
            srec = sim_steps[j] if j < len(sim_steps) else None
            j += 1
            if st["op"] == "env":
                p = os.path.join(d, os.path.relpath(st["path"], "/work"))
                if st["what"] == "put":
                    open(p, "wb").write(ex.text(st["src"]))
                elif st["what"] == "mkdir":
                    os.makedirs(p, exist_ok=True)
                elif st["what"] == "out_state":
                    if not os.path.isdir(os.path.dirname(p)):
                        continue
                    if os.path.isdir(p):
                        shutil.rmtree(p)
                    elif os.path.exists(p):
                        os.unlink(p)
                    state = st["state"]
                    ref_len = len(lastreport.get(st["which"], b"")) or 1200
                    if state == "empty":
                        open(p, "wb").write(b"")
                    elif state == "short":
                        open(p, "wb").write(b"{\"a\":1}")
                    elif state == "longer":
                        fill = st["fill"].encode()
                        n = ref_len + st["extra"]
                        open(p, "wb").write((fill * (n // len(fill) + 1))[:n])
                    elif state == "other_report":
                        other = lastreport.get("2" if st["which"] == "1" else "1")
                        open(p, "wb").write(other if other else b"[\n  {\n    \"old\": \"report\"\n  }\n]\n" * 40)
                    elif state.startswith("same_report"):
                        return None  # the shipped CLI reads the real clock: "the same report" is not reproducible on the real side
                        same = lastreport.get(st["which"])
                        if not same:
                            open(p, "wb").write(b"")
                        elif state == "same_report_leading_blank":
                            open(p, "wb").write(b"\n" + same)
                        elif state == "same_report_crlf":
                            open(p, "wb").write(same.replace(b"\n", b"\r\n"))
                        elif state == "same_report_plus_newline":
                            open(p, "wb").write(same + b"\n")
                        else:
                            k = len(same) // 2
                            open(p, "wb").write(same[:k] + (b"X" if same[k:k + 1] != b"X" else b"Y") + same[k + 1:])
                    elif state == "directory":
                        os.makedirs(p)
                    elif state == "readonly":
                        return None  # root ignores file modes; simos models an ordinary user
                continue
            if st["op"] == "dirty_restart" or st.get("fault"):
                return None
            if len(st["argv"]) == 4 and st["argv"][0] == "validate" and st["argv"][3] in st["argv"][1:3]:
                # the report (with the real clock's dateCreated) replaces an input: later steps read it, and the
                # two sides can no longer be compared byte for byte
                return None
            p = subprocess.run([acv_plain] + st["argv"], cwd=d, capture_output=True, timeout=120)
            if p.returncode != srec["rc"]:
                mism.append("exit status real=%d sim=%d for %s" % (p.returncode, srec["rc"], st["argv"]))
            if norm_sha(p.stdout) != srec["stdout_norm"]:
                mism.append("stdout differs for %s (real %d bytes, simulated %d bytes)" % (st["argv"], len(p.stdout), srec["stdout_len"]))
            if st["argv"][:1] == ["validate"] and len(st["argv"]) == 4:
                outp = os.path.join(d, st["argv"][3])
                real_out = open(outp, "rb").read() if os.path.isfile(outp) else None
                if norm_sha(real_out) != srec["out_norm"]:
                    mism.append("output file differs for %s (real %s bytes)" % (st["argv"], None if real_out is None else len(real_out)))
            if st["argv"][:1] == ["validate"] and len(st["argv"]) == 4 and p.returncode == 0:
                outp = os.path.join(d, st["argv"][3])
                lastreport[st["argv"][1][1]] = open(outp, "rb").read() if os.path.isfile(outp) else b""
            simrec.setdefault("real_checked", 0)
            simrec["real_checked"] += 1
        return mism
    finally:
        shutil.rmtree(d, ignore_errors=True)
