"""C11 (engine B): progress events are well-bracketed and the channel is closed exactly once.

Cells (entry x failure x channel capacity x consumer) are enumerated exhaustively; per cell K
seeded schedules (who is released at each gate) and seeded clock steps."""
import hashlib, json, os, subprocess
from concurrent.futures import ThreadPoolExecutor

import vlib
from vlib import HarnessError, log

ENTRIES = ["Validate", "ValidateWithConfiguration", "CompileProfile", "CompileProfile+ValidateCompiled", "CompileProfile+ValidateCompiledWithConfiguration",
           # the observed call is the second one through the same channel variable (fresh channel per run)
           "Again:Validate", "Again:CompileProfile+ValidateCompiled", "AgainAfterFailedCompile:CompileProfile+ValidateCompiled"]


def base_entry(entry):
    return entry.split(":", 1)[1] if ":" in entry else entry
CAPS = [0, 1, 3, 64]
CONSUMERS = ["eager", "lagging", "milestones"]


def failures(sc):
    c11 = os.path.join(vlib.VERIF, "corpus", "c11")
    rd = lambda p: open(p).read()
    base_data = rd(os.path.join(sc.src, "test/data/integration/profile1/negative.data.jsonld"))
    fs = [{"id": "none", "kind": "none"}]
    for name in ("bad_yaml", "no_validations", "no_targetclass", "unknown_node", "rego_syntax", "eval_conflict"):
        fs.append({"id": "input:" + name, "kind": "input", "profile": rd(os.path.join(c11, name + ".yaml"))})
    sec = os.path.join(sc.src, "test/data/security/http.send/profile.yaml")
    if os.path.exists(sec):
        fs.append({"id": "input:denied_builtin", "kind": "input", "profile": rd(sec)})
    fs.append({"id": "input:data_empty", "kind": "input", "data": "", "has_data": True})
    fs.append({"id": "input:data_truncated", "kind": "input", "data": base_data[: len(base_data) // 2], "has_data": True})
    fs.append({"id": "input:data_raml", "kind": "input", "data": "#%RAML 1.0\ntitle: not json\n", "has_data": True})
    doc = json.loads(base_data)
    node = doc[0] if isinstance(doc, list) else doc
    node["@id"] = 7
    fs.append({"id": "input:data_jsonld_rejected", "kind": "input", "data": json.dumps(doc), "has_data": True})
    # a remote @context that cannot be fetched (a file URL that does not exist: the document loader fails at once, without any network)
    fs.append({"id": "input:data_remote_context", "kind": "input", "has_data": True,
               "data": json.dumps({"@context": "file:///sim-nonexistent/context.jsonld", "@id": "http://sim.example/r1", "@type": "http://a.ml/vocabularies/apiContract#WebAPI"})})
    # documents without nodes: on some trees the library panics on them while indexing (escaping panics are C17's
    # subject, not claimed): for these inputs a panicking call is not judged for the close, only the events it sent are
    fs.append({"id": "input:data_empty_array", "kind": "input", "has_data": True, "data": "[]", "may_panic": True})
    fs.append({"id": "input:data_empty_object", "kind": "input", "has_data": True, "data": "{}", "may_panic": True})
    fs.append({"id": "input:eval_conflict_toplevel", "kind": "input", "profile": rd(os.path.join(c11, "eval_conflict_toplevel.yaml"))})
    # a property path that is not a path: on some trees the path parser panics on it (C17's subject); the events sent
    # before that are still judged (bracketing, prefix of the fault-free list)
    fs.append({"id": "input:bad_path", "kind": "input", "profile": rd(os.path.join(c11, "bad_path.yaml")), "may_panic": True})
    for site in sc.census.get("fail_sites") or []:
        if "test_utils" in site:
            continue
        fs.append({"id": "failpoint:" + site, "kind": "failpoint", "site": site})
    return fs


def run_prefix(sc, testbin, job, shard, nshard, idx):
    """Re-executes the cells of one shard up to idx in one process; returns the result of cell idx."""
    outdir = os.path.join(sc.dir, "bubble")
    os.makedirs(outdir, exist_ok=True)
    tag = "%d-%d" % (os.getpid(), idx)
    j = dict(job, shard=shard, nshard=nshard, replay_until={"idx": idx}, out=os.path.join(outdir, "prefix-%s.jsonl" % tag))
    j.pop("replay", None)
    jf = os.path.join(outdir, "prefixjob-%s.json" % tag)
    json.dump(j, open(jf, "w"))
    env = dict(vlib.ENV)
    env.update({"SIM_JOB": jf, "GODEBUG": "asynctimerchan=0", "GOMAXPROCS": "2"})
    subprocess.run([testbin, "-test.run", "TestBubble", "-test.timeout", "0"], env=env, capture_output=True, text=True, timeout=1800)
    res = [json.loads(l) for l in open(j["out"]) if l.strip().startswith("{")] if os.path.exists(j["out"]) else []
    res = [r for r in res if "cell" in r]
    return res[-1] if res else None


CHANNEL_PANICS = ("send on closed channel", "close of closed channel")


def run_process(sc, testbin, j, timeout, gomaxprocs):
    """One OS process of the bubble driver. Returns (results, finished, died) where died is a synthetic result
    for the cell during which the process was killed by a channel-misuse panic in a goroutine of the library
    (such a panic cannot be recovered by the caller: the whole process dies, which is the violation)."""
    outdir = os.path.join(sc.dir, "bubble")
    os.makedirs(outdir, exist_ok=True)
    tag = "%d-%d-%d" % (os.getpid(), j.get("shard", 0), int.from_bytes(os.urandom(4), "big"))
    j = dict(j, out=os.path.join(outdir, "out-%s.jsonl" % tag))
    jf = os.path.join(outdir, "job-%s.json" % tag)
    json.dump(j, open(jf, "w"))
    env = dict(vlib.ENV)
    env.update({"SIM_JOB": jf, "GODEBUG": "asynctimerchan=0", "GOMAXPROCS": str(gomaxprocs)})
    try:
        p = subprocess.run([testbin, "-test.run", "TestBubble", "-test.timeout", "0"], env=env, capture_output=True, text=True, timeout=timeout)
    except subprocess.TimeoutExpired:
        raise HarnessError("watchdog: bubble process (shard %s) did not finish in %ds" % (j.get("shard"), timeout))
    res, finished, last_start = [], False, None
    if os.path.exists(j["out"]):
        for ln in open(j["out"]):
            ln = ln.strip()
            if not ln.startswith("{"):
                continue
            try:
                r = json.loads(ln)
            except ValueError:
                continue
            if "shard_done" in r:
                finished = True
            elif "started" in r:
                last_start = r
            else:
                res.append(r)
                last_start = None
    os.unlink(jf)
    if os.path.exists(j["out"]):
        os.unlink(j["out"])
    died = None
    if not finished and last_start is not None:
        text = p.stdout + p.stderr
        hit = next((m for m in CHANNEL_PANICS if "panic: " + m in text), None)
        if hit:
            died = {"cell": last_start["cell"], "idx": last_start["started"], "shard": j.get("shard", 0), "nshard": j.get("nshard", 1), "events": [], "times": [],
                    "closed": True, "returned": ["panic:" + hit + " (in a goroutine the library started: the process died)"], "steps": 0, "sim_ns": 0,
                    "choices": [], "dts": [], "sels": [], "process_died": True, "probes": {}}
        elif last_start["cell"].get("failure", {}).get("may_panic") and "panic: " in text:
            # an input the library may panic on for a reason of its own (C17's subject), and on this tree the panic
            # is raised in a goroutine the library started, so it cannot be recovered and takes the process down:
            # the cell is recorded as a panicking call (nothing is demanded of the close), the shard resumes after it
            first = next((l for l in text.splitlines() if l.startswith("panic: ")), "panic: ?")
            died = {"cell": last_start["cell"], "idx": last_start["started"], "shard": j.get("shard", 0), "nshard": j.get("nshard", 1), "events": [], "times": [],
                    "closed": True, "returned": ["panic:" + first[7:200] + " (in a goroutine the library started: the process died)"], "steps": 0, "sim_ns": 0,
                    "choices": [], "dts": [], "sels": [], "process_died": True, "probes": {"process_died_on_may_panic_input": 1}}
        else:
            raise HarnessError("bubble process ended unexpectedly (rc=%d) in cell %s: %s %s" % (p.returncode, json.dumps(last_start["cell"])[:300], p.stdout[-1500:], p.stderr[-1500:]))
    elif not finished and "replay" not in j and "replay_until" not in j:
        raise HarnessError("bubble process ended unexpectedly (rc=%d): %s %s" % (p.returncode, p.stdout[-1500:], p.stderr[-1500:]))
    return res, finished, died


def run_prefix(sc, testbin, job, shard, nshard, idx):
    """Re-executes the cells of one shard up to idx in one process; returns the result of cell idx."""
    j = dict(job, shard=shard, nshard=nshard, replay_until={"idx": idx})
    j.pop("replay", None)
    res, finished, died = run_process(sc, testbin, j, 1800, 2)
    if died:
        return died
    res = [r for r in res if "cell" in r]
    return res[-1] if res else None


def run_bubbles(sc, testbin, job, nshard, timeout=1800, gomaxprocs=2):
    def shard(i):
        out = []
        skip = 0
        for _ in range(200):
            j = dict(job, shard=i, nshard=nshard, skip_until=skip)
            res, finished, died = run_process(sc, testbin, j, timeout, gomaxprocs)
            out += res
            if died:
                out.append(died)
                if "replay" in job:
                    break
                skip = died["idx"]  # resume the shard after the cell that killed the process
                continue
            break
        return out

    out = []
    with ThreadPoolExecutor(max_workers=nshard) as ex:
        for r in ex.map(shard, range(nshard)):
            out += r
    return out


def stage(name):
    for suf in ("Start", "Done"):
        if name.endswith(suf):
            return name[: -len(suf)], suf
    return name, "?"


def judge(r, ff, ops, ffsteps):
    """Returns a list of (class, sigdetail, text). ff = event list of the fault-free run of the same entry."""
    out = []
    cell = r["cell"]
    ev = r["events"] or []
    entry = cell["entry"]
    fid = cell["failure"]["id"]
    ret = r.get("returned") or []
    if r.get("process_died") and not any(m in x for x in ret for m in CHANNEL_PANICS):
        return []  # the process died of a panic of the library's own on a may_panic input: nothing was observed, nothing is judged
    # ---- B1 bracketing
    openst = None
    seen = set()
    for n in ev:
        st, kind = stage(n)
        if kind == "Start":
            if openst is not None:
                out.append(("overlap", st, "stage %s starts while %s is still open" % (st, openst)))
                break
            if st in seen:
                out.append(("stage_twice", st, "stage %s occurs twice" % st))
                break
            openst = st
            seen.add(st)
        elif kind == "Done":
            if openst != st:
                out.append(("done_without_start", st, "%sDone received while open stage is %s" % (st, openst)))
                break
            openst = None
        else:
            out.append(("unknown_event", n, "event %s is neither Start nor Done" % n))
            break
    # ---- B2 prefix of the fault-free pipeline order
    if ff is not None and ev != ff[: len(ev)]:
        k = next(i for i in range(len(ev)) if i >= len(ff) or ev[i] != ff[i])
        out.append(("not_a_prefix", ev[k] if k < len(ev) else "-", "event %d is %s, the fault-free run has %s there" % (k, ev[k], ff[k] if k < len(ff) else "nothing")))
    # ---- B3 close
    panics = [x for x in ret if x.startswith("panic:")]
    for p in panics:
        if "close of closed channel" in p:
            out.append(("double_close", entry_kind(entry), "the library closed the event channel twice"))
        elif "send on closed channel" in p:
            out.append(("send_after_close", entry_kind(entry), "the library sent an event after closing the channel"))
    entry = base_entry(entry)
    compile_ok_alone = entry == "CompileProfile" and ret == ["ok"]
    dl = r.get("deadlock") or ""
    other_panic = [x for x in panics if not any(m in x for m in CHANNEL_PANICS)]
    if cell["failure"].get("may_panic") and other_panic:
        pass  # the call panicked for a reason of its own (C17): nothing is demanded of the close
    elif compile_ok_alone:
        if r.get("closed"):
            out.append(("closed_after_successful_compile", "CompileProfile", "a successful stand-alone CompileProfile closed the channel"))
    else:
        finished = "validator" not in dl.split(",") and not dl.startswith("step budget")
        if dl.startswith("step budget"):
            out.append(("no_progress", entry_kind(entry), "run did not finish within the step budget: " + dl))
        elif not r.get("closed"):
            if finished:
                why = "the call returned" if not panics else "the call panicked (%s)" % panics[0][:120]
                out.append(("never_closed", entry_kind(entry), "%s but the consumer is still blocked in receive: channel never closed" % why))
            else:
                out.append(("deadlock", dl, "deadlock at quiescence, blocked: " + dl))
        elif dl:
            out.append(("deadlock", dl, "channel closed but goroutines still blocked at quiescence: " + dl))
        if entry.startswith("CompileProfile+") and len(ret) >= 1 and ret[0] == "ok" and cell["consumer"] == "eager" and not r.get("open_after_compile"):
            out.append(("closed_after_successful_compile", entry_kind(entry), "the channel was already closed between CompileProfile and the validation that follows"))
    # ---- B4 bounded progress
    if ffsteps and r["steps"] > 4 * ffsteps + 64:
        out.append(("slow_progress", entry_kind(entry), "%d scheduler steps, fault-free run of the cell needs %d" % (r["steps"], ffsteps)))
    # ---- M milestones
    if cell["consumer"] == "milestones" and not out:
        ms = r.get("milestones") or []
        completed = set()
        o = None
        for n in ev:
            st, kind = stage(n)
            if kind == "Start":
                o = st
            elif kind == "Done" and o == st:
                completed.add(st)
                o = None
        # exact start/duration against the simulated clock: recorded as a probe only (the statement promises
        # non-negative durations, not exact ones)
        tstart, tdone = {}, {}
        for n, tm in zip(ev, r.get("times") or []):
            st, kind = stage(n)
            (tstart if kind == "Start" else tdone)[st] = tm
        vocab0 = {v: name for name, v in ops}
        for m in ms:
            name = vocab0.get(m["op"])
            if name in tstart and name in tdone and (m["start"] != tstart[name] or m["dur"] != tdone[name] - tstart[name]):
                r.setdefault("probe_milestone_time_mismatch", 0)
                r["probe_milestone_time_mismatch"] += 1
        byop = {}
        for m in ms:
            byop.setdefault(m["op"], []).append(m)
            if m["dur"] < 0:
                out.append(("negative_duration", m["op"], "milestone %s has duration %d ns" % (m["op"], m["dur"])))
        vocab = {v: name for name, v in ops}
        for v, name in vocab.items():
            n = len(byop.get(v, []))
            if name in completed and n != 1:
                out.append(("milestone_count", name, "stage %s completed but %d milestones with that operation were produced" % (name, n)))
            if name not in completed and n != 0:
                out.append(("milestone_for_incomplete_stage", name, "stage %s did not complete but %d milestones were produced" % (name, n)))
        for op, lst in byop.items():
            if op not in vocab and len(lst) > 1:
                out.append(("milestone_count", op, "%d milestones for operation %s outside the vocabulary" % (len(lst), op)))
        if r.get("closed") and not r.get("mclosed") and not compile_ok_alone:
            out.append(("milestone_channel_not_closed", entry_kind(entry), "event channel closed but the milestone channel was not"))
    return out


def entry_kind(entry):
    return base_entry(entry).replace("WithConfiguration", "")
