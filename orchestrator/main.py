#!/usr/bin/env python3
"""/verif/check entry point: ./check <ID> quick|thorough | --replay <file> | selftest | setup"""
import base64, json, os, sys, time, hashlib, random, subprocess
sys.path.insert(0, os.path.dirname(os.path.abspath(__file__)))
import vlib
from vlib import HarnessError, log

DEFAULT_SEED = {"quick": 20260926, "thorough": 77000001}

COMPONENTS = {
    "real": ["all repository code (instrumented copy of the current tree)", "OPA v0.47 (rego compile + eval)", "json-gold (JSON-LD flatten)",
             "yaml.v3", "Go runtime and race detector", "OS process lifecycle (every CLI invocation and every reference is a fresh process)"],
    "stub": ["goroutine scheduling between callers (baton scheduler)", "Go map iteration order (simrt.MapRange)", "wall clock (simrt.Now, injected ValidationConfiguration)",
             "file system under the CLI (simos)", "event / milestone consumers", "the calling application (drivers)"],
}


def seed_of(tier):
    v = os.environ.get("VERIF_SEED")
    if v:
        try:
            return int(v) & 0x7FFFFFFFFFFFFFFF
        except ValueError:
            return int(hashlib.sha256(v.encode()).hexdigest()[:15], 16)
    return DEFAULT_SEED[tier]


def base_coverage(agg, sc, rule, wall, extra=None):
    cov = {
        "evaluations": agg.runs,
        "distinct_nontrivial": len(agg.sigs),
        "rule": rule,
        "samples": agg.samples[:2] or [{"note": "no violation-free run to show"}],
        "runs_per_hour": int(agg.runs / wall * 3600) if wall > 0 else 0,
        "seeds_per_hour": int(agg.runs / wall * 3600) if wall > 0 else 0,
        "simulated_time": {"unit": "scheduler steps", "value": agg.stats.get("steps", 0)},
        "fault_kinds_fired": {
            "task_preemption": agg.stats.get("switches", 0),
            "race_directed_park": agg.stats.get("parks", 0),
            "race_directed_back_to_back_pairs": agg.stats.get("directed_pairs", 0),
            "torn_read_modify_write": agg.stats.get("torn_fired", 0),
            "map_permutation_non_identity": agg.stats.get("map_permuted", 0),
            "forced_stage_error": agg.stats.get("fail_fired", 0),
            "lock_contention_yield": agg.stats.get("lock_blocked", 0),
        },
        "probes": agg.probes,
        "distinct_interleavings": len(agg.schedsigs),
        "reference_processes": agg.ref_procs,
        "reference_cache_hits": agg.ref_hits,
        "instrumentation_census": {"sites": sc.census.get("sites"), "go_statements_in_repo_code": sc.census.get("go_stmts") or [],
                                   "select_statements": sc.census.get("selects") or [], "sync_map_range": sc.census.get("sync_map_range") or [],
                                   "map_range_sites": sc.census.get("map_sites"), "hot_variables": sc.census.get("hot_vars")},
        "components": COMPONENTS,
        "tree_hash": sc.tree_hash,
    }
    if extra:
        cov.update(extra)
    return cov


# ------------------------------------------------------------------ C06

def disk_image(files, faults=None):
    img = {"files": {}, "faults": faults or []}
    for p, (data, mode) in files.items():
        img["files"][p] = {"data": base64.b64encode(data).decode(), "mode": mode}
    return img


def run_simacv(sc, binary, argv, image, env=None, timeout=120):
    """One simulated CLI invocation: a real fresh process over a simulated disk image."""
    d = os.path.join(sc.dir, "disks")
    os.makedirs(d, exist_ok=True)
    tag = "%d-%d" % (os.getpid(), random.randrange(1 << 40))
    pin, pout = os.path.join(d, tag + ".in.json"), os.path.join(d, tag + ".out.json")
    json.dump(image, open(pin, "w"))
    e = dict(vlib.ENV)
    e.update({"SIM_DISK": pin, "SIM_DISK_OUT": pout, "GOMAXPROCS": "2"})
    if env:
        e.update(env)
    try:
        p = subprocess.run([binary] + argv, env=e, capture_output=True, timeout=timeout)
    except subprocess.TimeoutExpired:
        raise HarnessError("watchdog: simacv %s did not finish in %ds" % (argv, timeout))
    out_img = None
    if os.path.exists(pout):
        out_img = json.load(open(pout))
        os.unlink(pout)
    os.unlink(pin)
    return p.returncode, p.stdout, p.stderr, out_img


def c06_generate_processes(sc, simacv, profiles, k, seed, nproc):
    """Code generation in K fresh processes per profile, each with another map-iteration seed:
    stdout must be byte-identical across all of them (and to the canonical-order process)."""
    from concurrent.futures import ThreadPoolExecutor
    results = {"processes": 0, "profiles": 0, "violations": [], "distinct_outputs": {}}

    def one(pi):
        prof = profiles[pi]
        path = prof["path"] if os.path.isabs(prof["path"]) else os.path.join(sc.src, prof["path"])
        text = open(path, "rb").read()
        img = disk_image({"/work/profile.yaml": (text, 0o644)})
        outs = []
        for j in range(k):
            env = {} if j == 0 else {"SIM_MAPSEED": str(vlib.splitmix(seed * 1000003 + pi * 131 + j))}
            rc, so, se, _ = run_simacv(sc, simacv, ["generate", "profile.yaml"], img, env)
            outs.append((rc, so, env.get("SIM_MAPSEED")))
        return pi, outs

    with ThreadPoolExecutor(max_workers=nproc) as ex:
        for pi, outs in ex.map(one, range(len(profiles))):
            results["profiles"] += 1
            results["processes"] += len(outs)
            base = outs[0]
            distinct = set((rc, hashlib.sha256(so).hexdigest()) for rc, so, _ in outs)
            if len(distinct) > 1:
                bad = next(o for o in outs if (o[0], o[1]) != (base[0], base[1]))
                results["violations"].append({"profile": profiles[pi]["id"], "path": profiles[pi]["path"], "mapseed": bad[2], "distinct": len(distinct),
                                              "base_rc": base[0], "rc": bad[0]})
    return results


def check_c06(tier, seed):
    t0 = time.time()
    sc = vlib.Scratch()
    sc.prepare()
    sc.corpus()
    harness = sc.build("./simharness", "simharness")
    simacv = sc.build("./cmd", "simacv")
    n_runs = 240 if tier == "quick" else 6000
    agg = vlib.run_engine_a(sc, harness, "c06", tier, seed, n_runs, 10 if tier == "quick" else 25, vlib.NCPU)
    if agg.harness:
        raise HarnessError("reference computation failed: " + agg.harness[0]["harness_error"][:1000])
    nviol = vlib.report_violations_a("C06", sc, harness, agg)

    # fresh-process code generation
    profs = [p for p in sc.corpus_index if p["class"] != "production" or tier == "thorough"]
    rnd = random.Random(seed)
    if tier == "quick":
        gen = [p for p in profs if p["class"] == "generated"]
        fix = [p for p in profs if p["class"] != "generated"]
        rnd.shuffle(gen)
        rnd.shuffle(fix)
        profs = gen[:14] + fix[:14]
    k = 6 if tier == "quick" else 16
    g = c06_generate_processes(sc, simacv, profs, k, seed, vlib.NCPU)
    known = vlib.load_known("C06")
    rdir = vlib.out_dir("replays")
    printed = set()
    for v in g["violations"]:
        sig = "generate_differs:" + v["profile"]
        generic = vlib.match_known(known, "generate_differs:*")
        km = vlib.match_known(known, sig) or generic
        if km:
            if km[0] not in printed:
                print("KNOWN-FINDING: property=C06 %s (%s)" % (km[1], km[0]), flush=True)
                printed.add(km[0])
            continue
        if nviol >= 3:
            continue
        rf = {"property": "C06", "engine": "C-generate", "seed": seed, "tree": sc.tree_hash, "profile": v["path"], "profile_id": v["profile"],
              "mapseed": v["mapseed"], "violation": {"class": "generate_differs", "sig": sig,
              "detail": "acv generate printed %d distinct outputs over %d fresh processes (canonical order vs SIM_MAPSEED=%s)" % (v["distinct"], k, v["mapseed"])}}
        path = os.path.join(rdir, "C06-gen-%s.json" % hashlib.sha256(v["profile"].encode()).hexdigest()[:10])
        json.dump(rf, open(path, "w"), indent=1)
        print("VIOLATION property=C06 replay=%s" % path, flush=True)
        log("  " + rf["violation"]["detail"] + " profile=" + v["profile"])
        nviol += 1
    wall = time.time() - t0
    rule = ("engine A runs: one (profile, data, configuration, clock) validated repeatedly in one process, through a compiled profile, and by 1-4 concurrent tasks, "
            "with a seeded permutation at every map range and seeded task switches; each result compared byte-for-byte with a fresh canonical-order reference process. "
            "Plus K fresh `simacv generate` processes per profile with different map-iteration seeds. A run is non-trivial when a non-identity permutation of a map with >= 2 keys "
            "was applied or a task switch beyond start-up happened; distinct = distinct hash of (workload, decisions taken).")
    cov = base_coverage(agg, sc, rule, wall, {
        "generate_fresh_processes": g["processes"], "generate_profiles": g["profiles"], "generate_profiles_with_differing_output": len(g["violations"]),
        "probes_never_hit": [k for k in ("map_permuted",) if agg.stats.get(k, 0) == 0],
    })
    cov["evaluations"] = agg.runs + g["processes"]
    vlib.write_evidence("C06", tier, seed, "exploration", cov, wall, nviol,
                        ["dependencies (OPA, json-gold, yaml.v3) run uninstrumented: their own map iteration stays Go-random and is not permuted by the simulator",
                         "the canonical (sorted) order is one legal order of Go's map iteration, so the reference process is a legal execution",
                         "byte equality is only demanded between runs with the same profile text, data text, report configuration and instant"])
    return 1 if nviol else 0


CHECKS = {"C06": check_c06}


def main():
    args = sys.argv[1:]
    if not args:
        print("usage: check <ID> quick|thorough | --replay <file> | selftest | setup", file=sys.stderr)
        return 2
    try:
        if args[0] == "setup":
            vlib.build_instrumenter()
            return 0
        if args[0] == "--replay":
            import replay
            return replay.replay_file(args[1])
        prop = args[0]
        tier = args[1] if len(args) > 1 else os.environ.get("VERIF_TIER", "quick")
        if prop not in CHECKS or tier not in ("quick", "thorough"):
            print("unknown check", prop, tier, file=sys.stderr)
            return 2
        return CHECKS[prop](tier, seed_of(tier))
    except HarnessError as ex:
        log("HARNESS ERROR:", ex)
        return 2


if __name__ == "__main__":
    sys.exit(main())
