#!/usr/bin/env python3
"""/verif/check entry point: ./check <ID> quick|thorough | --replay <file> | selftest | setup"""
import base64, json, os, sys, time, hashlib, random, subprocess
sys.path.insert(0, os.path.dirname(os.path.abspath(__file__)))
import vlib
from vlib import HarnessError, log

DEFAULT_SEED = {"quick": 20260926, "thorough": 77000001}

COMPONENTS = {
    "real": ["all repository code (instrumented copy of the current tree)", "OPA v0.47 (rego compile + eval)", "json-gold (JSON-LD flatten)",
             "yaml.v3", "Go runtime and race detector", "OS process lifecycle (every CLI invocation and every reference is a fresh process)"],
    "stub": ["goroutine scheduling between callers (baton scheduler)", "Go map iteration order (simrt.MapRange)", "wall clock (simrt.Now, injected ValidationConfiguration)",
             "file system under the CLI (simos)", "event / milestone consumers", "the calling application (drivers)"],
}


def seed_of(tier):
    v = os.environ.get("VERIF_SEED")
    if v:
        try:
            return int(v) & 0x7FFFFFFFFFFFFFFF
        except ValueError:
            return int(hashlib.sha256(v.encode()).hexdigest()[:15], 16)
    return DEFAULT_SEED[tier]


def base_coverage(agg, sc, rule, wall, extra=None):
    cov = {
        "evaluations": agg.runs,
        "distinct_nontrivial": len(agg.sigs),
        "rule": rule,
        "samples": agg.samples[:2] or [{"note": "no violation-free run to show"}],
        "runs_per_hour": int(agg.runs / wall * 3600) if wall > 0 else 0,
        "seeds_per_hour": int(agg.runs / wall * 3600) if wall > 0 else 0,
        "simulated_time": {"unit": "scheduler steps", "value": agg.stats.get("steps", 0)},
        "fault_kinds_fired": {
            "task_preemption": agg.stats.get("switches", 0),
            "race_directed_park": agg.stats.get("parks", 0),
            "race_directed_back_to_back_pairs": agg.stats.get("directed_pairs", 0),
            "torn_read_modify_write": agg.stats.get("torn_fired", 0),
            "map_permutation_non_identity": agg.stats.get("map_permuted", 0),
            "forced_stage_error": agg.stats.get("fail_fired", 0),
            "lock_contention_yield": agg.stats.get("lock_blocked", 0),
            "forced_handoff_from_task_blocked_on_library_sync(degraded_mode)": agg.stats.get("forced_handoffs_from_blocked_task", 0),
        },
        "probes": agg.probes,
        "distinct_interleavings": len(agg.schedsigs),
        "reference_processes": agg.ref_procs,
        "reference_cache_hits": agg.ref_hits,
        "instrumentation_census": {"sites": sc.census.get("sites"), "go_statements_in_repo_code": sc.census.get("go_stmts") or [],
                                   "select_statements": sc.census.get("selects") or [], "sync_map_range": sc.census.get("sync_map_range") or [],
                                   "map_range_sites": sc.census.get("map_sites"), "hot_variables": sc.census.get("hot_vars")},
        "components": COMPONENTS,
        "tree_hash": sc.tree_hash,
    }
    if extra:
        cov.update(extra)
    return cov


# ------------------------------------------------------------------ C06

def disk_image(files, faults=None):
    img = {"files": {}, "faults": faults or []}
    for p, (data, mode) in files.items():
        img["files"][p] = {"data": base64.b64encode(data).decode(), "mode": mode}
    return img


def run_simacv(sc, binary, argv, image, env=None, timeout=120):
    """One simulated CLI invocation: a real fresh process over a simulated disk image."""
    d = os.path.join(sc.dir, "disks")
    os.makedirs(d, exist_ok=True)
    tag = "%d-%d" % (os.getpid(), random.randrange(1 << 40))
    pin, pout = os.path.join(d, tag + ".in.json"), os.path.join(d, tag + ".out.json")
    json.dump(image, open(pin, "w"))
    e = dict(vlib.ENV)
    e.update({"SIM_DISK": pin, "SIM_DISK_OUT": pout, "GOMAXPROCS": "2"})
    if env:
        e.update(env)
    try:
        p = subprocess.run([binary] + argv, env=e, capture_output=True, timeout=timeout)
    except subprocess.TimeoutExpired:
        raise HarnessError("watchdog: simacv %s did not finish in %ds" % (argv, timeout))
    out_img = None
    if os.path.exists(pout):
        out_img = json.load(open(pout))
        os.unlink(pout)
    os.unlink(pin)
    return p.returncode, p.stdout, p.stderr, out_img


def c06_generate_processes(sc, simacv, profiles, k, seed, nproc):
    """Code generation in K fresh processes per profile, each with another map-iteration seed:
    stdout must be byte-identical across all of them (and to the canonical-order process)."""
    from concurrent.futures import ThreadPoolExecutor
    results = {"processes": 0, "profiles": 0, "violations": [], "distinct_outputs": {}}

    def one(pi):
        prof = profiles[pi]
        path = prof["path"] if os.path.isabs(prof["path"]) else os.path.join(sc.src, prof["path"])
        text = open(path, "rb").read()
        img = disk_image({"/work/profile.yaml": (text, 0o644)})
        outs = []
        for j in range(k):
            env = {} if j == 0 else {"SIM_MAPSEED": str(vlib.splitmix(seed * 1000003 + pi * 131 + j))}
            env["GOMAXPROCS"] = "4"
            rc, so, se, _ = run_simacv(sc, simacv, ["generate", "profile.yaml"], img, env)
            outs.append((rc, so, env.get("SIM_MAPSEED")))
        return pi, outs

    with ThreadPoolExecutor(max_workers=nproc) as ex:
        for pi, outs in ex.map(one, range(len(profiles))):
            results["profiles"] += 1
            results["processes"] += len(outs)
            base = outs[0]
            distinct = set((rc, hashlib.sha256(so).hexdigest()) for rc, so, _ in outs)
            if len(distinct) > 1:
                bad = next(o for o in outs if (o[0], o[1]) != (base[0], base[1]))
                results["violations"].append({"profile": profiles[pi]["id"], "path": profiles[pi]["path"], "mapseed": bad[2], "distinct": len(distinct),
                                              "base_rc": base[0], "rc": bad[0]})
    return results


def c06_unsimulated(sc, profiles, k):
    """`acv generate P` and `acv validate P D` of the UNINSTRUMENTED binary, k fresh processes each, real map
    randomisation and real scheduling; validate output is compared with the dateCreated value blanked."""
    import re, tempfile
    from concurrent.futures import ThreadPoolExecutor
    acv = sc.build("./cmd", "acv-plain", plain=True)
    out = {"processes": 0, "profiles": 0, "violations": [], "un_simulated": True, "seed_replayable": False}

    def one(prof):
        ppath = prof["path"] if os.path.isabs(prof["path"]) else os.path.join(sc.src, prof["path"])
        res = []
        gens = set()
        for _ in range(k):
            p = subprocess.run([acv, "generate", ppath], capture_output=True, timeout=300)
            gens.add((p.returncode, hashlib.sha256(p.stdout).hexdigest()))
        res.append(("generate", len(gens), None))
        if prof["data"]:
            d = min(prof["data"], key=lambda x: x["size"])
            dpath = d["path"] if os.path.isabs(d["path"]) else os.path.join(sc.src, d["path"])
            vals = set()
            for _ in range(max(2, k // 2)):
                p = subprocess.run([acv, "validate", ppath, dpath], capture_output=True, timeout=300)
                vals.add((p.returncode, hashlib.sha256(re.sub(rb'"dateCreated": "[^"]*"', b'"dateCreated": "T"', p.stdout)).hexdigest()))
            res.append(("validate", len(vals), dpath))
        return prof, res

    with ThreadPoolExecutor(max_workers=vlib.NCPU) as ex:
        for prof, res in ex.map(one, profiles):
            out["profiles"] += 1
            for what, distinct, dpath in res:
                n = k if what == "generate" else max(2, k // 2)
                out["processes"] += n
                if distinct > 1:
                    out["violations"].append({"profile": prof["id"], "path": prof["path"], "data": dpath, "what": what, "distinct": distinct, "runs": n})
    return out


def check_c06(tier, seed):
    t0 = time.time()
    sc = vlib.Scratch()
    sc.prepare(plain=True)
    sc.corpus()
    harness = sc.build("./simharness", "simharness")
    simacv = sc.build("./cmd", "simacv")
    n_runs = 240 if tier == "quick" else 6000
    agg = vlib.run_engine_a(sc, harness, "c06", tier, seed, n_runs, 10 if tier == "quick" else 25, vlib.NCPU)
    if agg.harness:
        raise HarnessError("reference computation failed: " + agg.harness[0]["harness_error"][:1000])
    nviol = vlib.report_violations_a("C06", sc, harness, agg)

    # fresh-process code generation
    profs = list(sc.corpus_index)
    rnd = random.Random(seed)
    if tier == "quick":
        gen = [p for p in profs if p["class"] == "generated"]
        fix = [p for p in profs if p["class"] == "fixture"]
        big = [p for p in profs if p["class"] in ("production", "special")]  # many validations per profile
        rnd.shuffle(gen)
        rnd.shuffle(fix)
        profs = gen[:12] + fix[:12] + big
    k = 6 if tier == "quick" else 16
    g = c06_generate_processes(sc, simacv, profs, k, seed, vlib.NCPU)
    known = vlib.load_known("C06")
    rdir = vlib.out_dir("replays")
    printed = set()
    for v in g["violations"]:
        sig = "generate_differs:" + v["profile"]
        generic = vlib.match_known(known, "generate_differs:*")
        km = vlib.match_known(known, sig) or generic
        if km:
            if km[0] not in printed:
                print("KNOWN-FINDING: property=C06 %s (%s)" % (km[1], km[0]), flush=True)
                printed.add(km[0])
            continue
        if nviol >= 3:
            continue
        rf = {"property": "C06", "engine": "C-generate", "seed": seed, "tree": sc.tree_hash, "profile": v["path"], "profile_id": v["profile"],
              "mapseed": v["mapseed"], "violation": {"class": "generate_differs", "sig": sig,
              "detail": "acv generate printed %d distinct outputs over %d fresh processes (canonical order vs SIM_MAPSEED=%s)" % (v["distinct"], k, v["mapseed"])}}
        path = os.path.join(rdir, "C06-gen-%s.json" % hashlib.sha256(v["profile"].encode()).hexdigest()[:10])
        json.dump(rf, open(path, "w"), indent=1)
        print("VIOLATION property=C06 replay=%s" % path, flush=True)
        log("  " + rf["violation"]["detail"] + " profile=" + v["profile"])
        nviol += 1
    # un-simulated cross-check: the shipped binary, real Go map randomisation, real fresh processes. It can only
    # add findings; a difference found here is reported with a "run it k times" recipe, not a seed.
    un = c06_unsimulated(sc, [p for p in profs if p["class"] in ("generated", "special", "production")][: (10 if tier == "quick" else 60)], 6 if tier == "quick" else 12)
    for v in un["violations"]:
        sig = "unsimulated_differs:" + v["what"]
        km = vlib.match_known(known, sig) or vlib.match_known(known, "unsimulated_differs:*")
        if km:
            print("KNOWN-FINDING: property=C06 %s (%s)" % (km[1], sig), flush=True)
            continue
        if nviol >= 4:
            continue
        path = os.path.join(rdir, "C06-unsim-%s.json" % hashlib.sha256((v["what"] + v["profile"]).encode()).hexdigest()[:10])
        json.dump({"property": "C06", "engine": "unsimulated", "seed": seed, "tree": sc.tree_hash, "profile": v["path"], "profile_id": v["profile"], "data": v.get("data"), "what": v["what"], "runs": v["runs"],
                   "violation": {"class": "unsimulated_differs", "sig": sig, "detail": "the uninstrumented acv %s printed %d distinct outputs in %d fresh processes; not seed-replayable: run it that many times" % (v["what"], v["distinct"], v["runs"])}}, open(path, "w"), indent=1)
        print("VIOLATION property=C06 replay=%s" % path, flush=True)
        log("  uninstrumented acv %s on %s: %d distinct outputs in %d fresh processes" % (v["what"], v["profile"], v["distinct"], v["runs"]))
        nviol += 1
    wall = time.time() - t0
    rule = ("engine A runs: one (profile, data, configuration, clock) validated repeatedly in one process, through a compiled profile, and by 1-4 concurrent tasks, "
            "with a seeded permutation at every map range and seeded task switches; each result compared byte-for-byte with a fresh canonical-order reference process. "
            "Plus K fresh `simacv generate` processes per profile with different map-iteration seeds. A run is non-trivial when a non-identity permutation of a map with >= 2 keys "
            "was applied or a task switch beyond start-up happened; distinct = distinct hash of (workload, decisions taken).")
    cov = base_coverage(agg, sc, rule, wall, {
        "generate_fresh_processes": g["processes"], "generate_profiles": g["profiles"], "generate_profiles_with_differing_output": len(g["violations"]),
        "probes_never_hit": [k for k in ("map_permuted",) if agg.stats.get(k, 0) == 0],
        "unsimulated_cross_check": {k: v for k, v in un.items() if k != "violations"},
    })
    cov["evaluations"] = agg.runs + g["processes"]
    vlib.write_evidence("C06", tier, seed, "exploration", cov, wall, nviol,
                        ["dependencies (OPA, json-gold, yaml.v3) run uninstrumented: their own map iteration stays Go-random and is not permuted by the simulator",
                         "the canonical (sorted) order is one legal order of Go's map iteration, so the reference process is a legal execution",
                         "byte equality is only demanded between runs with the same profile text, data text, report configuration and instant"])
    return 1 if nviol else 0


# ------------------------------------------------------------------ C09 / C10

def check_c09(tier, seed):
    t0 = time.time()
    sc = vlib.Scratch()
    sc.prepare()
    sc.corpus()
    harness = sc.build("./simharness", "simharness")
    n_runs = 400 if tier == "quick" else 8000
    agg = vlib.run_engine_a(sc, harness, "c09", tier, seed, n_runs, 10 if tier == "quick" else 25, vlib.NCPU)
    if agg.harness:
        raise HarnessError("reference computation failed: " + agg.harness[0]["harness_error"][:1000])
    nviol = vlib.report_violations_a("C09", sc, harness, agg)
    wall = time.time() - t0
    rule = ("histories of 3..40 operations (Compile, ValidateCompiled, ValidateCompiledWithConfiguration, Validate, ValidateWithConfiguration) over 1..3 compiled handles in ONE process, "
            "with repeated documents, unreadable / JSON-LD-rejected / panicking documents, forced stage failures from generated failpoints, event channels and report configurations "
            "attached to single steps, and the clock moving forwards and backwards between steps; after every step (err?, report bytes) must equal the stateless reference "
            "ref(profile, data, config, instant) computed in a fresh process. Non-trivial: a fault, a failpoint or a non-identity map permutation occurred; distinct = hash of (history, decisions).")
    cov = base_coverage(agg, sc, rule, wall, {"failpoint_sites": sc.census.get("fail_sites"),
                                              "probes_never_hit": [p for p in ("step_with_injected_failure", "op_with_event_channel", "op_error", "op_panicked") if not agg.probes.get(p)]})
    vlib.write_evidence("C09", tier, seed, "exploration", cov, wall, nviol,
                        ["the reference model is the library itself run once in a fresh process: C09 is about independence from history, not about the verdict being right",
                         "error texts are not compared (they may contain generated names); outcomes are (error?, panic?, report bytes)",
                         "a step hit by an injected stage failure is not judged itself (code may legitimately tolerate a failed sub-step); every later step is held to full equality"])
    return 1 if nviol else 0


def check_c10(tier, seed):
    t0 = time.time()
    sc = vlib.Scratch()
    sc.prepare()
    sc.corpus()
    plain = sc.build("./simharness", "simharness")
    racebin = sc.build("./simharness", "simharness-race", race=True)
    vlib.ENV["SIM_REFBIN"] = plain  # replays and minimisation candidates compute their references with the plain build too
    n_runs = 320 if tier == "quick" else 12000
    agg = vlib.run_engine_a(sc, racebin, "c10", tier, seed, n_runs, 10 if tier == "quick" else 25, vlib.NCPU, race=True, refbin=plain, timeout=1800)
    if agg.harness:
        raise HarnessError("reference computation failed: " + agg.harness[0]["harness_error"][:1000])
    nviol = vlib.report_violations_a("C10", sc, racebin, agg, race=True)
    free = None
    if tier == "thorough":
        free = free_running_pass(sc, racebin, plain, seed)
        nviol += free["violations"]
    wall = time.time() - t0
    rule = ("2..6 tasks, each 1..3 calls of Validate / ValidateWithConfiguration / CompileProfile / ValidateCompiled*, over the same or different profiles, handles shared (compiled in a serial prologue) or private; "
            "the baton scheduler (invisible to the race detector) decides every interleaving: random switching at 0.2-20%, PCT-style forced preemptions, race-directed parking before accesses to package-level variables, "
            "torn read-modify-write of package state, map permutations. Oracle: no race detector report, and every call's (err?, report bytes) equals its solo reference from a fresh process. "
            "Non-trivial: at least one task switch beyond start-up; distinct = hash of (workload, decisions).")
    extra = {"race_detector": "built with -race; reports go to a per-process log that is checked after every run"}
    if free:
        extra["free_running_unsimulated_pass"] = free
    cov = base_coverage(agg, sc, rule, wall, extra)
    vlib.write_evidence("C10", tier, seed, "exploration", cov, wall, nviol,
                        ["interleavings inside one OPA / json-gold / yaml.v3 call are not explored: dependencies run atomically between two yields of repo code",
                         "a race is only reported if the two accesses happen in one explored run; the detector never reports accesses ordered by the library's own synchronisation",
                         "race reports replay on the schedule level exactly; the detector's report itself recurs in most but not all re-executions (sync.Pool drops objects at random in race mode)"])
    return 1 if nviol else 0


# ------------------------------------------------------------------ C04

def check_c04(tier, seed):
    from concurrent.futures import ThreadPoolExecutor
    t0 = time.time()
    sc = vlib.Scratch()
    sc.prepare()
    sc.corpus()
    harness = sc.build("./simharness", "simharness")
    simacv = sc.build("./cmd", "simacv")
    nshard = vlib.NCPU
    clidir = os.path.join(sc.dir, "clisamples")
    os.makedirs(clidir)

    skipped_docs = []
    killed = []

    def shard(i):
        args = ["c04", "-tier", tier, "-corpus", sc.corpus_path, "-seed", str(seed), "-shard", str(i), "-nshard", str(nshard), "-clisamples", clidir]
        # documents are taken smallest first; what did not fit into the wall budget is reported in the evidence
        args += ["-budget", "1500" if tier == "thorough" else "60"]
        rc, lines, err = vlib.run_chunk(harness, args, {"GOMAXPROCS": "1" if i % 2 else "2"}, 7200 if tier == "thorough" else 900)
        if not any("shard_done" in l for l in lines) and ("panic:" in err or "fatal error:" in err):
            # the driver process was killed by a panic it cannot recover: one raised in a goroutine the library started.
            # Run the shard again with call tracing to learn which unreadable document was being validated.
            rc2, lines2, err2 = vlib.run_chunk(harness, args, {"GOMAXPROCS": "1" if i % 2 else "2", "SIM_C04_TRACE": "1"}, 7200 if tier == "thorough" else 1800)
            marks = [l for l in err2.splitlines() if l.startswith("C04TRACE ")]
            if not any("shard_done" in l for l in lines2) and marks and ("panic:" in err2 or "fatal error:" in err2):
                m = json.loads(marks[-1][9:])
                first = next((l for l in err2.splitlines() if l.startswith("panic:") or l.startswith("fatal error:")), "panic")
                killed.append({"profile": m["profile"], "data": m["data"], "fault": m["fault"], "entry": m["entry"], "class": "process_killed_for_unreadable",
                               "sig": "process_killed_for_unreadable:" + m["kind"], "reason": m["reason"], "detail": "the whole process died while validating this unreadable document: " + first[:200], "doc_len": m["doc_len"]})
                return [l for l in lines2 if "profile" in l]
            raise HarnessError("c04 shard %d ended unexpectedly (rc=%d) and the traced re-run did not die the same way: %s" % (i, rc, err[-2000:]))
        if not any("shard_done" in l for l in lines):
            raise HarnessError("c04 shard %d ended unexpectedly (rc=%d): %s" % (i, rc, err[-3000:]))
        skipped_docs.append(sum(l.get("documents_skipped_for_budget", 0) for l in lines if "shard_done" in l))
        return [l for l in lines if "profile" in l]

    docs = []
    with ThreadPoolExecutor(max_workers=nshard) as ex:
        for ls in ex.map(shard, range(nshard)):
            docs += ls
    inj, unr, absb = {}, {}, {}
    calls = und = distinct = 0
    viols = []
    for d in docs:
        for k, v in d["injected"].items():
            inj[k] = inj.get(k, 0) + v
        for k, v in d["unreadable"].items():
            unr[k] = unr.get(k, 0) + v
        for k, v in d["absorbed"].items():
            absb[k] = absb.get(k, 0) + v
        calls += d["calls"]
        und += d["undecided"]
        distinct += d["distinct_unreadable_texts"]
        viols += d.get("violations") or []
    n_lib_viol = sum(d["n_violations"] for d in docs)
    viols += killed

    log("C04 direct half done after %.0fs" % (time.time() - t0))
    # CLI half: the instrumented binary over the simulated disk
    cli = c04_cli(sc, simacv, clidir, seed, tier)
    log("C04 CLI half done after %.0fs" % (time.time() - t0))
    viols += cli["violations"]

    # concurrent half (engine A): several tasks validate the same unreadable document at once
    agg = vlib.run_engine_a(sc, harness, "c04", tier, seed, 96 if tier == "quick" else 3000, 8 if tier == "quick" else 25, vlib.NCPU)
    if agg.harness:
        raise HarnessError("reference computation failed: " + agg.harness[0]["harness_error"][:1000])
    nviol_conc = vlib.report_violations_a("C04", sc, harness, agg)
    log("C04 concurrent half done after %.0fs" % (time.time() - t0))

    known = vlib.load_known("C04")
    rdir = vlib.out_dir("replays")
    by_sig = {}
    for v in viols:
        by_sig.setdefault(v["sig"], []).append(v)
    nviol = 0
    for sig, vs in sorted(by_sig.items()):
        km = vlib.match_known(known, sig)
        if km:
            print("KNOWN-FINDING: property=C04 %s (%s; %d occurrences)" % (km[1], sig, len(vs)), flush=True)
            continue
        # minimal witness: smallest document, shortest fault spec
        v = min(vs, key=lambda x: (x.get("doc_len", 0), len(x["fault"]), x["fault"]))
        ppath = next(p["path"] for p in sc.corpus_index if p["id"] == v["profile"])
        if not os.path.isabs(ppath):
            ppath = os.path.join("/repo", ppath)
        dpath = v["data"]
        if dpath.startswith(sc.src):
            dpath = os.path.join("/repo", os.path.relpath(dpath, sc.src))
        fault = v["fault"]
        if fault.startswith("file:") and fault[5:].startswith(sc.src):
            fault = "file:" + os.path.join("/repo", os.path.relpath(fault[5:], sc.src))
        v = dict(v, fault=fault)
        rf = {"property": "C04", "engine": v.get("engine", "direct"), "seed": seed, "tree": sc.tree_hash, "profile_path": ppath, "data_path": dpath, "violation": v}
        path = os.path.join(rdir, "C04-%s.json" % hashlib.sha256(sig.encode()).hexdigest()[:10])
        json.dump(rf, open(path, "w"), indent=1)
        print("VIOLATION property=C04 replay=%s" % path, flush=True)
        log("  %s entry=%s fault=%s doc=%s: %s [%s] (%d occurrences)" % (sig, v["entry"], v["fault"], v["data"], v["detail"], v.get("reason", ""), len(vs)))
        nviol += 1
    nviol += nviol_conc
    wall = time.time() - t0
    evals = sum(inj.values()) + cli["invocations"] + agg.runs
    cov = {
        "evaluations": evals,
        "distinct_nontrivial": distinct + cli["unreadable_invocations"] + len(agg.sigs),
        "rule": ("each valid data fixture is the intended content of the stored document; one storage fault is injected before the consumer reads it: torn write at EVERY byte offset (lost write = offset 0), "
                 "flipped stored bit (biased to structural characters), transcoding (UTF-16LE/BE, BOM, Latin-1), misdirected read (sibling RAML/YAML/Rego/profile), plus structural corruptions JSON-LD must reject. "
                 "Oracle computed by the driver: unreadable(T) = json.Decoder cannot decode a first value or json-gold Flatten rejects it; then every entry point must return err != nil and an empty report, no panic; "
                 "the CLI must exit non-zero without a report on stdout and leave OUT untouched. Non-trivial and distinct = distinct faulted texts that are unreadable; readable results of a fault are only counted as absorbed."),
        "samples": [{"profile": d["profile"], "data": d["data"], "len": d["len"], "all_offsets": d["all_offsets"], "injected": d["injected"], "unreadable": d["unreadable"], "fault_free": d["fault_free"], "examples": d.get("samples")} for d in docs[:3]],
        "documents": len(docs), "documents_with_every_offset": sum(1 for d in docs if d["all_offsets"]), "documents_skipped_for_time_budget": sum(skipped_docs),
        "exhaustive": False,
        "fault_kinds_fired": inj, "faults_that_made_the_document_unreadable": unr, "faults_absorbed_still_readable": absb, "undecided_jsonld_panicked": und,
        "library_calls_on_unreadable_texts": calls, "library_violations_total": n_lib_viol,
        "cli": {k: v for k, v in cli.items() if k != "violations"},
        "concurrent_runs": {"runs": agg.runs, "task_switches": agg.stats.get("switches", 0), "unreadable_concurrent_calls": agg.probes.get("unreadable_concurrent_call", 0),
                            "distinct_interleavings": len(agg.schedsigs), "sample": agg.samples[:1]},
        "runs_per_hour": int(evals / wall * 3600), "seeds_per_hour": int(evals / wall * 3600),
        "simulated_time": {"unit": "not applicable (no clock in this property)", "value": 0},
        "entry_points": ["Validate", "ValidateWithConfiguration", "ValidateCompiled", "ValidateCompiledWithConfiguration", "each with and without an event channel", "acv validate P D", "acv validate P D OUT"],
        "components": COMPONENTS, "tree_hash": sc.tree_hash,
        "not_run": ["js/wasm wrapper (no wasm runtime here; it calls the same internal.Validate)"],
    }
    vlib.write_evidence("C04", tier, seed, "fault_enumeration", cov, wall, nviol,
                        ["'unreadable' is the statement's own definition: (encoding/json decoder with UseNumber, json-gold Flatten with empty context and default options)",
                         "byte strings not derivable from a valid fixture by the listed fault operators are not sampled",
                         "trailing garbage after a complete first JSON value counts as readable (the statement says 'no complete JSON value can be read')"])
    return 1 if nviol else 0


def c04_cli(sc, simacv, clidir, seed, tier):
    """acv validate P T [OUT] on the simulated disk for a sample of unreadable texts, plus read faults."""
    from concurrent.futures import ThreadPoolExecutor
    samples = []
    for f in sorted(os.listdir(clidir)):
        if f.startswith("index-"):
            for ln in open(os.path.join(clidir, f)):
                samples.append(json.loads(ln))
    rnd = random.Random(seed)
    rnd.shuffle(samples)
    samples = samples[:60 if tier == "quick" else 600]
    res = {"invocations": 0, "unreadable_invocations": 0, "read_fault_invocations": 0, "violations": [], "by_mode": {}}
    prior = b"PRIOR-CONTENT-OF-THE-OUTPUT-FILE\n" * 3

    def one(i_s):
        i, s = i_s
        text = open(os.path.join(clidir, s["file"]), "rb").read()
        prof = open(s["profile_path"], "rb").read()
        out = []
        for mode in ("stdout", "out_absent", "out_existing"):
            files = {"/work/profile.yaml": (prof, 0o644), "/work/data.jsonld": (text, 0o644)}
            argv = ["validate", "profile.yaml", "data.jsonld"]
            if mode != "stdout":
                argv.append("out.json")
            if mode == "out_existing":
                files["/work/out.json"] = (prior, 0o644)
            rc, so, se, img = run_simacv(sc, simacv, argv, disk_image(files), {"SIM_NOW": "975369600", "GOMAXPROCS": "1" if i % 2 else "4"})
            why = None
            if rc == 0:
                why = "exit status 0"
            elif b'"conforms"' in so:
                why = "a report on stdout"
            elif mode == "out_existing" and img and base64.b64decode(img["files"].get("/work/out.json", {}).get("data", "")) != prior:
                why = "the output file was modified"
            elif mode == "out_absent" and img and b'"conforms"' in base64.b64decode(img["files"].get("/work/out.json", {}).get("data", "")):
                why = "a report was written to the output file"
            out.append((mode, why, rc))
        return s, out

    with ThreadPoolExecutor(max_workers=vlib.NCPU) as ex:
        for s, outs in ex.map(one, enumerate(samples)):
            for mode, why, rc in outs:
                res["invocations"] += 1
                res["unreadable_invocations"] += 1
                res["by_mode"][mode] = res["by_mode"].get(mode, 0) + 1
                if why:
                    kind = fault_kind(s["fault"])
                    res["violations"].append({"profile": s["profile"], "data": os.path.join(sc.src, s["data"]) if not os.path.isabs(s["data"]) else s["data"], "fault": s["fault"], "entry": "acv validate (%s)" % mode,
                                              "class": "cli_verdict_for_unreadable", "sig": "cli_verdict_for_unreadable:" + kind, "reason": s["reason"], "detail": why + " (exit %d)" % rc,
                                              "doc_len": 0, "engine": "C-simproc"})

    # read faults on the data file of valid fixtures: EIO, and a short read nobody can notice
    pairs = [(p, d) for p in sc.corpus_index if p["class"] != "production" for d in p["data"] if d["size"] < 30000]
    rnd.shuffle(pairs)
    for p, d in pairs[:8 if tier == "quick" else 60]:
        ppath = p["path"] if os.path.isabs(p["path"]) else os.path.join(sc.src, p["path"])
        dpath = d["path"] if os.path.isabs(d["path"]) else os.path.join(sc.src, d["path"])
        prof, data = open(ppath, "rb").read(), open(dpath, "rb").read()
        for fault in ({"op": "read", "path": "/work/data.jsonld", "nth": 1, "err": "EIO"},
                      {"op": "open", "path": "/work/data.jsonld", "nth": 1, "err": "EACCES"},
                      {"op": "read", "path": "/work/data.jsonld", "nth": 1, "err": "SHORT", "after": rnd.randrange(0, max(1, len(data) - 2))}):
            files = {"/work/profile.yaml": (prof, 0o644), "/work/data.jsonld": (data, 0o644)}
            rc, so, se, img = run_simacv(sc, simacv, ["validate", "profile.yaml", "data.jsonld"], disk_image(files, [fault]), {"SIM_NOW": "975369600"})
            res["invocations"] += 1
            res["read_fault_invocations"] += 1
            fired = img and any(f.get("fired") for f in img.get("faults", []))
            res["read_faults_fired"] = res.get("read_faults_fired", 0) + (1 if fired else 0)
            if rc == 0 or b'"conforms"' in so:
                spec = "trunc:%d" % fault["after"] if fault["err"] == "SHORT" else "io:" + fault["err"]
                res["violations"].append({"profile": p["id"], "data": dpath, "fault": spec, "entry": "acv validate (stdout)", "class": "cli_verdict_for_unreadable",
                                          "sig": "cli_verdict_for_unreadable:" + ("torn_write" if fault["err"] == "SHORT" else "read_error"), "reason": "read fault " + fault["err"],
                                          "detail": "exit status %d, stdout %s a report" % (rc, "has" if b'"conforms"' in so else "without"), "doc_len": len(data), "engine": "C-simproc"})
    return res


def fault_kind(spec):
    k = spec.split(":", 1)[0]
    if k == "ld":
        return "jsonld_rejected"
    if k == "trunc":
        return "lost_write" if spec == "trunc:0" else "torn_write"
    return {"flip": "flipped_bit", "file": "misdirected_read"}.get(k, "wrong_encoding")


# ------------------------------------------------------------------ C18

def c18_pairs(sc, tier):
    """(profile path, data path, weight class). Pairs whose outputs contain unusual bytes ('%', quotes,
    non-ASCII) are listed several times so that most histories include one."""
    pairs = []
    for p in sc.corpus_index:
        if p["class"] == "production" and tier == "quick":
            continue
        if p["size"] > 6000 and tier == "quick" and p["class"] != "special":
            continue
        for d in p["data"]:
            if d["size"] <= (40000 if tier == "quick" else 400000) or p["class"] == "special":
                pp = p["path"] if os.path.isabs(p["path"]) else os.path.join(sc.src, p["path"])
                dp = d["path"] if os.path.isabs(d["path"]) else os.path.join(sc.src, d["path"])
                pairs.append((pp, dp))
                if p["class"] == "special" or p["id"] in ("integration/profile29", "integration/profile24", "integration/profile25", "integration/profile26", "integration/profile27"):
                    pairs += [(pp, dp)] * 30
    return pairs


def c18_minimise(ex, h, viol, budget=40):
    """Drop steps (never the violating run step) while the same violation signature persists."""
    import c18
    steps = h["steps"]
    target = viol["step"]
    keep = list(range(target + 1))
    tries = 0
    i = len(keep) - 2
    while i >= 0 and tries < budget:
        cand = keep[:i] + keep[i + 1:]
        hh = {"id": h["id"], "steps": [steps[j] for j in cand]}
        tries += 1
        try:
            _, v = ex.run_history(hh)
        except HarnessError:
            v = None
        if v and v["sig"] == viol["sig"] and v["step"] == len(cand) - 1:
            keep = cand
        i -= 1
    hh = {"id": h["id"], "steps": [steps[j] for j in keep]}
    return hh, tries


def check_c18(tier, seed):
    import c18
    from concurrent.futures import ThreadPoolExecutor
    t0 = time.time()
    sc = vlib.Scratch()
    sc.prepare(plain=True)
    sc.corpus()
    simacv = sc.build("./cmd", "simacv")
    acv_plain = sc.build("./cmd", "acv-plain", plain=True)
    pairs = c18_pairs(sc, tier)
    n_hist = 160 if tier == "quick" else 6000
    rnd = random.Random(seed)
    hists = [c18.gen_history(random.Random(vlib.splitmix(seed + i)), pairs, i) for i in range(n_hist)]
    cache = {}
    ex = c18.Exec(sc, simacv, cache)

    def one(h):
        return h, ex.run_history(h)

    recs, viols = [], []
    with ThreadPoolExecutor(max_workers=vlib.NCPU) as pool:
        for h, (rec, v) in pool.map(one, hists):
            recs.append((h, rec))
            if v:
                viols.append((h, rec, v))
    known = vlib.load_known("C18")
    rdir = vlib.out_dir("replays")
    nviol = 0
    by_sig = {}
    for h, rec, v in viols:
        by_sig.setdefault(v["sig"], []).append((h, rec, v))
    for sig, items in sorted(by_sig.items()):
        km = vlib.match_known(known, sig)
        if km:
            print("KNOWN-FINDING: property=C18 %s (%s; %d histories)" % (km[1], sig, len(items)), flush=True)
            continue
        if nviol >= 3:
            continue
        h, rec, v = min(items, key=lambda x: x[2]["step"])
        hh, tries = c18_minimise(ex, h, v)
        # portable paths: the replay rebuilds its own scratch copy
        for st in hh["steps"]:
            if st.get("src", "").startswith(sc.src):
                st["src"] = os.path.join("/repo", os.path.relpath(st["src"], sc.src))
        # replay the minimised history twice more: it must fail the same way
        ok = 0
        for _ in range(2):
            hcopy = json.loads(json.dumps(hh))
            for st in hcopy["steps"]:
                if st.get("src", "").startswith("/repo/"):
                    st["src"] = os.path.join(sc.src, os.path.relpath(st["src"], "/repo"))
            _, v2 = ex.run_history(hcopy)
            if v2 and v2["sig"] == v["sig"]:
                ok += 1
        v = dict(v, step=len(hh["steps"]) - 1)
        rf = {"property": "C18", "engine": "C-simproc", "seed": seed, "tree": sc.tree_hash, "history": hh, "violation": v, "minimised": {"candidates_tried": tries}, "replays": {"attempts": 2, "recurred": ok}}
        path = os.path.join(rdir, "C18-%s.json" % hashlib.sha256(sig.encode()).hexdigest()[:10])
        json.dump(rf, open(path, "w"), indent=1)
        if ok != 2:
            raise HarnessError("C18 violation %s does not replay deterministically; file %s" % (sig, path))
        print("VIOLATION property=C18 replay=%s" % path, flush=True)
        log("  %s step=%s argv=%s: %s (%d histories; minimised to %d steps)" % (sig, v["step"], v["argv"], v["detail"], len(items), len(hh["steps"])))
        nviol += 1

    # model validation: fault-free histories again with the uninstrumented binary on a real directory
    mv = {"histories": 0, "steps": 0, "mismatches": []}
    clean = [(h, rec) for h, rec in recs if not any(v[0]["id"] == h["id"] for v in viols)]
    for h, rec in (clean if not viols else []):  # model validation presupposes a tree on which the check passes
        if mv["histories"] >= (40 if tier == "quick" else 300):
            break
        m = c18.real_replay(sc, acv_plain, ex, h, rec)
        if m is None:
            continue
        mv["histories"] += 1
        mv["steps"] += rec.get("real_checked", 0)
        mv["mismatches"] += m[:3]
    if mv["mismatches"]:
        raise HarnessError("simulated disk disagrees with the real file system (defect of simos, not of the repository): %s" % mv["mismatches"][:3])

    wall = time.time() - t0
    faults, probes = {}, {}
    sigs = set()
    nruns = 0
    for h, rec in recs:
        for k, v in rec["faults_fired"].items():
            faults[k] = faults.get(k, 0) + v
        for k, v in rec["probes"].items():
            probes[k] = probes.get(k, 0) + v
        nruns += sum(1 for s in rec["steps"] if "argv" in s)
        if rec["nontrivial"]:
            sigs.add(hashlib.sha256(json.dumps(h["steps"], sort_keys=True).encode()).hexdigest()[:16])
    want_probes = ["existing_file_longer_than_report", "prior_state_longer", "prior_state_other_report", "prior_state_readonly", "prior_state_directory", "dirty_restart", "report_durable_after_success",
                   "failure_bad_arguments", "failure_library_error", "stdout_success_generate", "stdout_success_normalize", "stdout_success_validate"]
    cov = {
        "evaluations": len(recs),
        "distinct_nontrivial": len(sigs),
        "rule": ("seeded histories of 2..10 steps on one simulated disk: env steps put the output path into a prior state (absent, empty, shorter, longer with a non-whitespace pattern, the report of another pair, read-only, a directory, inside a missing directory), "
                 "run steps invoke the real CLI code as a fresh process (validate to stdout, validate to OUT repeatedly, generate, normalize, wrong argument counts, unknown command, missing inputs), optionally with one injected fault (EIO on read, EACCES on open, ENOSPC after k bytes, EIO on sync), "
                 "dirty restarts discard non-durable content. After every run step: exit status, stdout and the bytes of OUT are compared with the library value computed by a reference process on the same disk image and clock. "
                 "Non-trivial: the output path had a prior state other than absent, or a fault fired; distinct = hash of the step list."),
        "samples": [{"history": h["steps"][4:], "record": rec["steps"][4:]} for h, rec in recs[:2]],
        "cli_processes": ex.procs, "reference_processes": ex.ref_procs, "run_steps": nruns,
        "distinct_states": len(set(json.dumps([st.get("argv", [None])[0], len(st.get("argv", [])), st.get("prior"), (st.get("fault") or {}).get("op"), (st.get("fault") or {}).get("err"), st.get("fired"), st.get("rc"), st.get("ref_ok")])
                                   for h, rec in recs for st in rec["steps"] if "argv" in st)),
        "distinct_states_measure": "distinct (sub-command, argument count, prior state of the output path, fault op, fault kind, fired, exit status, reference ok) tuples over all run steps",
        "fault_kinds_fired": faults, "probes": probes, "probes_never_hit": [p for p in want_probes if not probes.get(p)],
        "model_validation_against_real_fs": mv,
        "runs_per_hour": int(len(recs) / wall * 3600), "seeds_per_hour": int(len(recs) / wall * 3600),
        "simulated_time": {"unit": "CLI invocations on the simulated disk", "value": ex.procs},
        "components": COMPONENTS, "tree_hash": sc.tree_hash,
    }
    vlib.write_evidence("C18", tier, seed, "fault_enumeration", cov, wall, nviol,
                        ["the file system is simos (POSIX open/create/truncate/append/permission semantics for an ordinary user); a sample of fault-free histories is re-run with the uninstrumented binary on a real directory and must agree",
                         "crash durability of the written report is recorded as a probe only: the statement does not promise it",
                         "for a read-only / directory / missing-directory output path either a failure (non-zero exit, no report on stdout, path unchanged) or a success that leaves exactly the report is accepted"])
    return 1 if nviol else 0


# ------------------------------------------------------------------ C11

def check_c11(tier, seed):
    import c11
    t0 = time.time()
    sc = vlib.Scratch()
    sc.prepare()
    testbin = sc.build("./simbubble", "simbubble.test", go=vlib.GO126, test=True)
    fails = c11.failures(sc)
    rd = lambda p: open(os.path.join(sc.src, p)).read()
    job = {"seed": seed, "k": 1 if tier == "quick" else 30, "profile": rd("test/data/integration/profile1/profile.yaml"), "data": rd("test/data/integration/profile1/negative.data.jsonld"),
           "entries": c11.ENTRIES, "failures": fails, "caps": c11.CAPS, "consumers": c11.CONSUMERS,
           "event_names": sc.census["event_types"], "operations": sc.census["operations"]}
    results = c11.run_bubbles(sc, testbin, job, vlib.NCPU)
    harness = [r for r in results if r.get("harness")]
    if harness:
        raise HarnessError("bubble could not be left cleanly: %s (cell %s)" % (harness[0]["harness"][:500], json.dumps(harness[0]["cell"])[:300]))
    # fault-free reference per entry (defines the pipeline order; must itself be complete, bracketed and closed)
    ff, ffsteps = {}, {}
    for r in results:
        c = r["cell"]
        if c["failure"]["id"] == "none":
            key = c["entry"]
            if key not in ff or len(r["events"] or []) > len(ff[key]):
                ff[key] = r["events"] or []
            k2 = (c["entry"], c["consumer"], c["cap"])
            ffsteps[k2] = max(ffsteps.get(k2, 0), r["steps"])
    known = vlib.load_known("C11")
    by_sig = {}
    stats = {"failed_at_stage": {}, "probes": {}, "fail_fired": 0, "deadlocks_seen": 0, "sim_ns": 0, "steps": 0}
    sigs = set()
    for r in results:
        c = r["cell"]
        stats["sim_ns"] += r["sim_ns"]
        stats["steps"] += r["steps"]
        stats["fail_fired"] += 1 if r.get("fail_fired") else 0
        for k, v in (r.get("probes") or {}).items():
            stats["probes"][k] = stats["probes"].get(k, 0) + v
        if c["failure"]["id"] != "none":
            last = (r["events"] or ["-"])[-1]
            key = c["failure"]["id"] + " -> " + last
            stats["failed_at_stage"][key] = stats["failed_at_stage"].get(key, 0) + 1
        if c["failure"]["id"] != "none" or c["consumer"] != "eager":
            sigs.add(hashlib.sha256(json.dumps([c["entry"], c["failure"]["id"], c["cap"], c["consumer"], c["mcap"], r["choices"], r["dts"]]).encode()).hexdigest()[:16])
        for cls, sd, text in c11.judge(r, ff.get(c["entry"]), sc.census["operations"], ffsteps.get((c["entry"], c["consumer"], c["cap"]))):
            sig = "%s:%s:%s" % (cls, sd, c["failure"]["id"])
            by_sig.setdefault(sig, []).append((r, text))
        if r.get("probe_milestone_time_mismatch"):
            stats["probes"]["milestone_time_mismatch"] = stats["probes"].get("milestone_time_mismatch", 0) + r["probe_milestone_time_mismatch"]
        if r["cell"]["consumer"] == "milestones":
            stats["probes"]["milestones_checked_against_clock"] = stats["probes"].get("milestones_checked_against_clock", 0) + len(r.get("milestones") or [])
    nviol = 0
    rdir = vlib.out_dir("replays")
    for sig, items in sorted(by_sig.items()):
        km = vlib.match_known(known, sig)
        if km:
            print("KNOWN-FINDING: property=C11 %s (%s; %d runs)" % (km[1], sig, len(items)), flush=True)
            continue
        if nviol >= 4:
            log("further violation signature:", sig, "(%d runs)" % len(items))
            continue
        # minimal witness: fewest scheduler steps; then try the simplest schedule (always release the first parked, 1 ns steps)
        r, text = min(items, key=lambda x: x[0]["steps"])
        cell = dict(r["cell"], choices=r["choices"], dts=r["dts"], sels=r.get("sels") or [])
        simple = dict(r["cell"], choices=[0] * (r["steps"] + 8), dts=[1] * (r["steps"] + 8), sels=[])
        # Repo code with `select` statements (none on the unchanged tree): the instrumenter makes the choice among
        # READY cases a recorded simulator decision (R7b), but a select that blocks and then finds several cases
        # ready at once is still resolved by Go at random. The observed violation is real either way, so with
        # selects in repo code it is reported when it recurs in at least one of six re-executions.
        flaky_ok = bool(sc.census.get("selects"))
        attempts = 6 if flaky_ok else 2
        chosen, best = None, 0
        cands = (simple, cell)
        if r.get("process_died"):
            # the process was killed inside this cell, so its decisions were never written out: the cell is
            # re-executed from its seed (the PRNG is the only source of decisions, so that is the same run)
            cands = ({k: v for k, v in r["cell"].items() if k not in ("choices", "dts", "sels")},)
        for cand in cands:
            ok = 0
            for _ in range(attempts):
                rr = c11.run_bubbles(sc, testbin, dict(job, replay=cand), 1)
                if rr and any(("%s:%s:%s" % (cls, sd, rr[0]["cell"]["failure"]["id"])) == sig for cls, sd, _ in c11.judge(rr[0], ff.get(cand["entry"]), sc.census["operations"], ffsteps.get((cand["entry"], cand["consumer"], cand["cap"])))):
                    ok += 1
            if ok == attempts or (flaky_ok and ok > best):
                chosen, best = cand, ok
                if ok == attempts:
                    break
        prefix = None
        if chosen is None:
            # not reproducible from the cell alone: state kept at process level? Re-execute the cells that ran
            # before it in the same process (same shard), from their seeds
            ok = 0
            for _ in range(2):
                rr = c11.run_prefix(sc, testbin, job, r["shard"], r["nshard"], r["idx"])
                if rr and any(("%s:%s:%s" % (cls, sd, rr["cell"]["failure"]["id"])) == sig for cls, sd, _ in c11.judge(rr, ff.get(rr["cell"]["entry"]), sc.census["operations"], None)):
                    ok += 1
            if ok == 2 or (flaky_ok and ok >= 1):
                chosen, best, attempts = cell, ok, 2
                prefix = {"seed": seed, "k": job["k"], "shard": r["shard"], "nshard": r["nshard"], "idx": r["idx"],
                          "note": "the violation needs the %d cells executed earlier in the same process; they are re-executed from their seeds" % (r["idx"] // r["nshard"])}
        if chosen is None:
            raise HarnessError("C11 violation %s does not replay from its recorded decisions" % sig)
        rf = {"property": "C11", "engine": "B-bubble", "seed": seed, "tree": sc.tree_hash, "cell": chosen, "prefix": prefix, "violation": {"class": sig.split(":")[0], "sig": sig, "detail": text},
              "events": r["events"], "returned": r.get("returned"), "replays": {"attempts": attempts, "recurred": best,
              "note": "select statements in repo code: ready cases are polled in a simulator-chosen order first (R7b), but when a select blocks and several cases become ready at once Go still chooses at random, so k-of-6 recurrences are accepted" if flaky_ok else "exact"}}
        path = os.path.join(rdir, "C11-%s.json" % hashlib.sha256(sig.encode()).hexdigest()[:10])
        json.dump(rf, open(path, "w"), indent=1)
        print("VIOLATION property=C11 replay=%s" % path, flush=True)
        log("  %s: %s [entry=%s cap=%d consumer=%s events=%s returned=%s] (%d runs)" % (sig, text, chosen["entry"], chosen["cap"], chosen["consumer"], r["events"], r.get("returned"), len(items)))
        nviol += 1
    wall = time.time() - t0
    cells = len(c11.ENTRIES) * len(fails) * len(c11.CAPS) * len(c11.CONSUMERS)
    cov = {
        "evaluations": len(results),
        "distinct_nontrivial": len(sigs),
        "rule": ("cells = entry point (%d) x failure (%d: none, real failing inputs per stage, forced error at every generated failpoint in pkg and internal/validator) x event channel capacity (0,1,3,64) x consumer (eager, lagging, real GenerateMilestonesFromEvents + gated milestone reader); "
                 "all %d cells are enumerated, K seeded schedules and clock-step sequences per cell. Oracle: bracketing, prefix of the fault-free event list of the same tree, closed exactly once when the validating call returns (open after a successful stand-alone compile), no deadlock at quiescence, bounded steps, one milestone per completed stage with duration >= 0. "
                 "Non-trivial: a failure was injected or the consumer was scheduled by the simulator; distinct = hash of (cell, release choices, clock steps).") % (len(c11.ENTRIES), len(fails), cells),
        "samples": [{"cell": {k: v for k, v in r["cell"].items() if k != "failure"}, "failure": r["cell"]["failure"]["id"], "events": r["events"], "returned": r.get("returned"), "closed": r.get("closed"),
                     "milestones": r.get("milestones"), "choices": r["choices"][:40], "clock_steps_ns": r["dts"][:40]} for r in results if r["cell"]["failure"]["id"] != "none"][:2],
        "cells": cells, "cells_enumerated": cells, "schedules_per_cell": job["k"], "exhaustive": False,
        "fault_kinds_fired": {"forced_stage_error": stats["fail_fired"], "real_failing_input_runs": sum(1 for r in results if r["cell"]["failure"]["kind"] == "input"),
                              "consumer_lag_runs": sum(1 for r in results if r["cell"]["consumer"] != "eager"), "full_buffer_send": stats["probes"].get("send_released_with_full_buffer", 0),
                              "close_with_buffered_events": stats["probes"].get("close_with_events_still_buffered", 0), "clock_steps": stats["steps"]},
        "failure_to_last_event": stats["failed_at_stage"],
        "probes": stats["probes"], "probes_never_hit": [p for p in ("send_released_with_full_buffer", "close_with_events_still_buffered") if not stats["probes"].get(p)],
        "simulated_time": {"unit": "fake-clock seconds", "value": round(stats["sim_ns"] / 1e9, 1)},
        "scheduler_steps": stats["steps"],
        "distinct_interleavings": len(set(json.dumps([r["choices"], r.get("sels")]) for r in results)),
        "distinct_event_channel_states": len(set(json.dumps([r["cell"]["entry"], r["cell"]["cap"], r["cell"]["consumer"], r["events"], r.get("closed"), r.get("returned")]) for r in results)),
        "runs_per_hour": int(len(results) / wall * 3600), "seeds_per_hour": int(len(results) / wall * 3600),
        "fault_free_event_lists": ff,
        "components": COMPONENTS, "tree_hash": sc.tree_hash,
        "failpoint_sites": [f["site"] for f in fails if f["kind"] == "failpoint"],
    }
    vlib.write_evidence("C11", tier, seed, "fault_enumeration", cov, wall, nviol,
                        ["event and operation names are read from pkg/events and pkg/milestones of the tree under test; Start/Done pairing is by name",
                         "inputs on which the library panics for reasons other than channel misuse are not in the catalogue (C17 is not claimed); if one panics, the consumer left blocked is still reported as never_closed",
                         "a forced error at a failpoint overwrites the error variable after the stage has really run; report building can only be failed this way",
                         "Go 1.26.8 testing/synctest: fake clock and quiescence detection; which goroutine proceeds is decided by the driver's PRNG at the gates"])
    return 1 if nviol else 0


# ------------------------------------------------------------------ determinism self-test

def selftest():
    """Every engine: the same seeds in separate processes at GOMAXPROCS 1, 4 and 16 (and twice at 4)
    must give identical decision traces and outcomes. A mismatch is harness trouble (exit 2)."""
    import c11, c18
    t0 = time.time()
    sc = vlib.Scratch()
    sc.prepare()
    sc.corpus()
    plain = sc.build("./simharness", "simharness")
    racebin = sc.build("./simharness", "simharness-race", race=True)
    simacv = sc.build("./cmd", "simacv")
    testbin = sc.build("./simbubble", "simbubble.test", go=vlib.GO126, test=True)
    report = {"engine_A": {}, "engine_B": {}, "engine_C": {}}
    bad = []
    for mode, binary, race, n in (("c06", plain, False, 32), ("c09", plain, False, 32), ("c10", racebin, True, 32)):
        sigs = []
        for gmp, chunk in ((1, 4), (4, 8), (16, 2), (4, 3)):
            agg = vlib.run_engine_a(sc, binary, mode, "quick", 424242, n, chunk, vlib.NCPU, race=race, refbin=plain, gomaxprocs=gmp)
            if agg.violations or agg.harness:
                raise HarnessError("selftest %s: unexpected violation/harness error on the unchanged tree" % mode)
            sigs.append(agg.tracesigs)
        diff = [s for s in sigs[0] if any(x.get(s) != sigs[0][s] for x in sigs[1:])]
        report["engine_A"][mode] = {"seeds": n, "configs": "GOMAXPROCS 1/4/16/4, chunk sizes 4/8/2/3", "diverging_seeds": diff}
        bad += ["A:%s:%s" % (mode, d) for d in diff]
    fails = c11.failures(sc)
    rd = lambda p: open(os.path.join(sc.src, p)).read()
    job = {"seed": 9001, "k": 1, "profile": rd("test/data/integration/profile1/profile.yaml"), "data": rd("test/data/integration/profile1/negative.data.jsonld"),
           "entries": c11.ENTRIES, "failures": fails[:8] + fails[-6:], "caps": c11.CAPS, "consumers": c11.CONSUMERS,
           "event_names": sc.census["event_types"], "operations": sc.census["operations"]}
    runs = []
    for gmp in (1, 4, 16):
        rs = c11.run_bubbles(sc, testbin, job, 16, gomaxprocs=gmp)
        runs.append({json.dumps(r["cell"], sort_keys=True): json.dumps([r["events"], r["times"], r["choices"], r["dts"], r.get("milestones"), r.get("returned"), r.get("closed"), r.get("deadlock")]) for r in rs})
    diff = [k for k in runs[0] if any(x.get(k) != runs[0][k] for x in runs[1:])]
    report["engine_B"] = {"cells": len(runs[0]), "configs": "GOMAXPROCS 1/4/16", "diverging_cells": diff[:5], "n_diverging": len(diff)}
    bad += ["B:" + d[:80] for d in diff]
    pairs = c18_pairs(sc, "quick")
    hists = [c18.gen_history(random.Random(vlib.splitmix(777 + i)), pairs, i) for i in range(24)]
    outs = []
    for rep in range(2):
        ex = c18.Exec(sc, simacv, {})
        outs.append([json.dumps(ex.run_history(h), sort_keys=True) for h in hists])
    diff = [i for i in range(len(hists)) if outs[0][i] != outs[1][i]]
    report["engine_C"] = {"histories": len(hists), "repetitions": 2, "diverging_histories": diff}
    bad += ["C:%d" % d for d in diff]
    report["wall_s"] = round(time.time() - t0, 1)
    json.dump(report, open(os.path.join(vlib.out_dir(), "selftest.json"), "w"), indent=1)
    print(json.dumps(report, indent=1))
    if bad:
        raise HarnessError("determinism self-test failed: %s" % bad[:10])
    print("selftest: all engines replay identically")
    return 0


# ------------------------------------------------------------------ sensitivity self-test

def mutants(args):
    """Applies each patch of /verif/mutants (and /verif/seeded/*/patch.diff) to a scratch worktree of /repo and runs the
    owning check against it (VERIF_REPO): the check must exit 1. Not part of the registered commands."""
    import glob, shutil, tempfile
    suite = "--suite" in args
    only = [a for a in args if not a.startswith("--")]
    items = []
    for f in sorted(glob.glob(os.path.join(vlib.VERIF, "mutants", "*.diff"))):
        name = os.path.basename(f)[:-5]
        prop = name.split("-")[2] if name.startswith("revert-fix-") else name.split("-")[0]
        items.append((name, prop, f))
    for d in sorted(glob.glob(os.path.join(vlib.VERIF, "seeded", "*"))):
        meta = os.path.join(d, "meta.json")
        if os.path.exists(meta):
            m = json.load(open(meta))
            items.append(("seeded/" + os.path.basename(d), m.get("caught_by_check") or m["property"], os.path.join(d, "patch.diff")))
    results = []
    for name, prop, patch in items:
        if only and not any(o in name for o in only):
            continue
        wt = tempfile.mkdtemp(prefix="verif-mut-", dir=os.environ.get("TMPDIR") or "/tmp")
        os.rmdir(wt)
        try:
            vlib.sh(["git", "-C", "/repo", "worktree", "add", "--detach", wt, "HEAD", "-q"])
            vlib.sh(["git", "-C", wt, "apply", patch])
            entry = {"mutant": name, "property": prop}
            if suite:
                p = vlib.sh([vlib.GO, "test", "-vet=off", "-count=1", "-timeout", "25m", "./..."], cwd=wt, check=False, timeout=3000)
                entry["repo_test_suite"] = "pass" if p.returncode == 0 else "FAIL"
            env = dict(os.environ, VERIF_REPO=wt, VERIF_EVIDENCE_DIR=vlib.out_dir("mutant-evidence"))
            t0 = time.time()
            p = subprocess.run([os.path.join(vlib.VERIF, "check"), prop, "quick"], env=env, capture_output=True, text=True)
            entry["rc"] = p.returncode
            entry["wall_s"] = round(time.time() - t0, 1)
            entry["lines"] = [l[:300] for l in p.stdout.splitlines() if l.startswith("VIOLATION") or l.startswith("KNOWN")][:4]
            entry["detail"] = [l[:300] for l in p.stderr.splitlines() if l.startswith("[verif]   ") or "HARNESS" in l][:3]
            entry["caught"] = p.returncode == 1
            results.append(entry)
            print(json.dumps(entry), flush=True)
        finally:
            subprocess.run(["git", "-C", "/repo", "worktree", "remove", "--force", wt], capture_output=True)
            shutil.rmtree(wt, ignore_errors=True)
    json.dump(results, open(os.path.join(vlib.out_dir(), "mutants.json"), "w"), indent=1)
    missed = [r["mutant"] for r in results if not r["caught"]]
    print("mutants: %d run, %d caught, missed: %s" % (len(results), len(results) - len(missed), missed))
    return 0 if not missed else 1


def benign(args):
    """Property-preserving edits a maintainer could make (mutants/benign): every listed check must stay silent."""
    import glob, re, shutil, tempfile
    results = []
    for f in sorted(glob.glob(os.path.join(vlib.VERIF, "mutants", "benign", "*.diff"))):
        name = os.path.basename(f)[:-5]
        if args and not any(a in name for a in args):
            continue
        props = re.findall(r"C\d\d", name)
        wt = tempfile.mkdtemp(prefix="verif-ben-", dir=os.environ.get("TMPDIR") or "/tmp")
        os.rmdir(wt)
        try:
            vlib.sh(["git", "-C", "/repo", "worktree", "add", "--detach", wt, "HEAD", "-q"])
            vlib.sh(["git", "-C", wt, "apply", f])
            for prop in props:
                env = dict(os.environ, VERIF_REPO=wt, VERIF_EVIDENCE_DIR=vlib.out_dir("mutant-evidence"))
                t0 = time.time()
                p = subprocess.run([os.path.join(vlib.VERIF, "check"), prop, "quick"], env=env, capture_output=True, text=True)
                entry = {"benign_change": name, "check": prop, "rc": p.returncode, "wall_s": round(time.time() - t0, 1),
                         "lines": [l[:300] for l in (p.stdout + p.stderr).splitlines() if l.startswith("VIOLATION") or "HARNESS" in l or l.startswith("[verif]   ")][:4]}
                results.append(entry)
                print(json.dumps(entry), flush=True)
        finally:
            subprocess.run(["git", "-C", "/repo", "worktree", "remove", "--force", wt], capture_output=True)
            shutil.rmtree(wt, ignore_errors=True)
    json.dump(results, open(os.path.join(vlib.out_dir(), "benign.json"), "w"), indent=1)
    bad = [(r["benign_change"], r["check"]) for r in results if r["rc"] != 0]
    print("benign: %d check runs, alarms or harness errors: %s" % (len(results), bad))
    return 0 if not bad else 1


def free_running_pass(sc, racebin, plain, seed):
    """The same task sets with real parallelism and no scheduler under -race: un-simulated, not seed-replayable.
    It exists to look where the baton cannot (inside one dependency call, goroutines a future edit spawns);
    it can add findings, never remove or excuse one."""
    n = 400
    agg = vlib.run_engine_a(sc, racebin, "c10", "thorough", seed + 5000000, n, 25, 4, race=True, refbin=plain, timeout=3600, gomaxprocs=8, free=True)
    known = vlib.load_known("C10")
    nv = 0
    seen = set()
    for r in agg.violations:
        sig = r["violation"]["sig"]
        if sig in seen:
            continue
        seen.add(sig)
        km = vlib.match_known(known, sig)
        if km:
            print("KNOWN-FINDING: property=C10 %s (%s; free-running pass)" % (km[1], sig), flush=True)
            continue
        rdir = vlib.out_dir("replays")
        path = os.path.join(rdir, "C10-free-%d.json" % r["seed"])
        json.dump({"property": "C10", "engine": "A-free", "seed": r["seed"], "spec": r["spec"], "violation": r["violation"],
                   "note": "found by the un-simulated free-running pass: not seed-replayable; re-run the same task set a few hundred times under -race"}, open(path, "w"), indent=1)
        print("VIOLATION property=C10 replay=%s" % path, flush=True)
        log("  free-running pass: %s %s" % (sig, r["violation"]["detail"][:400].replace("\n", " | ")))
        nv += 1
    return {"violations": nv, "runs": agg.runs, "un_simulated": True, "seed_replayable": False, "distinct_violation_signatures": sorted(seen)}


CHECKS = {"C11": check_c11, "C18": check_c18, "C04": check_c04, "C06": check_c06, "C09": check_c09, "C10": check_c10}


def main():
    args = sys.argv[1:]
    if not args:
        print("usage: check <ID> quick|thorough | --replay <file> | selftest | setup", file=sys.stderr)
        return 2
    try:
        if args[0] == "setup":
            # build the instrumenter and warm the Go build cache for every kind of build the checks make
            vlib.build_instrumenter()
            sc = vlib.Scratch()
            sc.prepare(plain=True)
            sc.build("./simharness", "simharness")
            sc.build("./cmd", "simacv")
            sc.build("./cmd", "acv-plain", plain=True)
            sc.build("./simharness", "simharness-race", race=True)
            sc.build("./simbubble", "simbubble.test", go=vlib.GO126, test=True)
            return 0
        if args[0] == "selftest":
            return selftest()
        if args[0] == "mutants":
            return mutants(args[1:])
        if args[0] == "benign":
            return benign(args[1:])
        if args[0] == "--replay":
            import replay
            return replay.replay_file(args[1])
        prop = args[0]
        tier = args[1] if len(args) > 1 else os.environ.get("VERIF_TIER", "quick")
        if prop not in CHECKS or tier not in ("quick", "thorough"):
            print("unknown check", prop, tier, file=sys.stderr)
            return 2
        return CHECKS[prop](tier, seed_of(tier))
    except HarnessError as ex:
        log("HARNESS ERROR:", ex)
        return 2


if __name__ == "__main__":
    sys.exit(main())
