"""Shared machinery of /verif/check: scratch copies, builds, parallel seed batches,
evidence files, replay files, known findings, minimisation.

Nothing here writes to /repo. Every check copies /repo's current working tree to a scratch
directory outside /repo and /verif, instruments the copy, builds it, runs, and removes it."""
import atexit, hashlib, json, os, random, shutil, signal, subprocess, sys, tempfile, time
from concurrent.futures import ThreadPoolExecutor, as_completed

VERIF = os.path.dirname(os.path.dirname(os.path.abspath(__file__)))
REPO = os.environ.get("VERIF_REPO", "/repo")
GO = "go"
GO126 = "go1.26.8"
NCPU = os.cpu_count() or 4

ENV = dict(os.environ)
ENV.update({"GOFLAGS": "-mod=mod", "GOPROXY": "off", "GOSUMDB": "off", "GOTOOLCHAIN": "local",
            "CGO_ENABLED": ENV.get("CGO_ENABLED", "1")})


class HarnessError(Exception):
    """Build / instrumentation / watchdog trouble: exit status 2, never a VIOLATION."""


def log(*a):
    print("[verif]", *a, file=sys.stderr, flush=True)


def sh(cmd, cwd=None, env=None, timeout=1800, check=True, stdin=None):
    e = dict(ENV)
    if env:
        e.update(env)
    p = subprocess.run(cmd, cwd=cwd, env=e, capture_output=True, text=True, timeout=timeout, input=stdin)
    if check and p.returncode != 0:
        raise HarnessError("command failed (%d): %s\n%s\n%s" % (p.returncode, " ".join(cmd), p.stdout[-4000:], p.stderr[-4000:]))
    return p


def splitmix(x):
    x = (x + 0x9e3779b97f4a7c15) & 0xFFFFFFFFFFFFFFFF
    z = x
    z = ((z ^ (z >> 30)) * 0xbf58476d1ce4e5b9) & 0xFFFFFFFFFFFFFFFF
    z = ((z ^ (z >> 27)) * 0x94d049bb133111eb) & 0xFFFFFFFFFFFFFFFF
    return z ^ (z >> 31)


class Scratch:
    """A throw-away copy of the tree under test plus everything built from it."""

    def __init__(self):
        base = os.environ.get("TMPDIR") or "/tmp"
        self.dir = tempfile.mkdtemp(prefix="verif-%d-" % os.getpid(), dir=base)
        self.src = os.path.join(self.dir, "src")        # instrumented copy
        self.plain = os.path.join(self.dir, "plain")    # untouched copy (uninstrumented builds)
        self.bin = os.path.join(self.dir, "bin")
        self.census = None
        os.makedirs(self.bin)
        atexit.register(self.cleanup)
        for sig in (signal.SIGTERM, signal.SIGINT, signal.SIGHUP):
            signal.signal(sig, self._sig)

    def _sig(self, signum, frame):
        self.cleanup()
        os._exit(2)

    def cleanup(self):
        if os.environ.get("VERIF_KEEP_SCRATCH"):
            log("keeping scratch", self.dir)
            return
        shutil.rmtree(self.dir, ignore_errors=True)

    def prepare(self, plain=False):
        t0 = time.time()
        instr = os.path.join(VERIF, "bin", "instrument")
        if not os.path.exists(instr):
            build_instrumenter()
        sh(["rsync", "-a", "--exclude", ".git", "--exclude", "wrappers", "--exclude", "docs",
            "--exclude", "node_modules", "--exclude", "js", REPO + "/", self.src + "/"])
        if plain:
            sh(["rsync", "-a", "--exclude", "test", self.src + "/", self.plain + "/"])
        census = os.path.join(self.dir, "census.json")
        sh([instr, "-dir", self.src, "-census", census], timeout=600)
        self.census = json.load(open(census))
        self.census_path = census
        for d in ("simrt", "harness/simharness", "harness/simbubble"):
            srcd = os.path.join(VERIF, d)
            if not os.path.isdir(srcd):
                continue
            dst = os.path.join(self.src, os.path.basename(d))
            shutil.copytree(srcd, dst, dirs_exist_ok=True)
        cmdwrap = os.path.join(VERIF, "harness", "cmdwrap")
        if os.path.isdir(cmdwrap):
            for f in os.listdir(cmdwrap):
                shutil.copy(os.path.join(cmdwrap, f), os.path.join(self.src, "cmd", f))
        self.tree_hash = tree_hash(self.src, ("internal", "pkg", "cmd"))
        log("scratch prepared in %.1fs at %s" % (time.time() - t0, self.dir))

    def build(self, pkg, out, race=False, plain=False, go=GO, extra=None, test=False):
        t0 = time.time()
        outp = os.path.join(self.bin, out)
        if test:
            cmd = [go, "test", "-c", "-o", outp]
        else:
            cmd = [go, "build", "-o", outp]
        if race:
            cmd.append("-race")
        if extra:
            cmd += extra
        cmd.append(pkg)
        sh(cmd, cwd=self.plain if plain else self.src, timeout=1800)
        log("built %s%s in %.1fs" % (out, " (race)" if race else "", time.time() - t0))
        return outp

    def corpus(self, name="corpus.json"):
        """Index of the workload: every profile.yaml + *.jsonld of the tree under test, plus the
        generated multi-key profiles of /verif/corpus."""
        profiles = []
        root = os.path.join(self.src, "test", "data")
        for dirpath, dirs, files in sorted(os.walk(root)):
            dirs.sort()
            if "profile.yaml" not in files:
                continue
            data = []
            for f in sorted(files):
                if f.endswith(".jsonld") and ".report" not in f and not f.startswith("report"):
                    p = os.path.join(dirpath, f)
                    data.append({"path": os.path.relpath(p, self.src), "size": os.path.getsize(p)})
            pp = os.path.join(dirpath, "profile.yaml")
            rel = os.path.relpath(dirpath, root)
            cls = "production" if rel.startswith("production") else "fixture"
            profiles.append({"id": rel, "path": os.path.relpath(pp, self.src), "size": os.path.getsize(pp), "data": data, "class": cls})
        gen = os.path.join(VERIF, "corpus", "generated")
        for d in sorted(os.listdir(gen)):
            dd = os.path.join(gen, d)
            data = []
            for f in sorted(os.listdir(dd)):
                if f.endswith(".jsonld"):
                    p = os.path.join(dd, f)
                    data.append({"path": p, "size": os.path.getsize(p)})
            pp = os.path.join(dd, "profile.yaml")
            profiles.append({"id": "generated/" + d, "path": pp, "size": os.path.getsize(pp), "data": data, "class": "generated"})
        spec = os.path.join(VERIF, "corpus", "special")
        for d in sorted(os.listdir(spec)):
            dd = os.path.join(spec, d)
            data = []
            for f in sorted(os.listdir(dd)):
                if f.endswith(".jsonld"):
                    p = os.path.join(dd, f)
                    data.append({"path": p, "size": os.path.getsize(p)})
            pp = os.path.join(dd, "profile.yaml")
            profiles.append({"id": "special/" + d, "path": pp, "size": os.path.getsize(pp), "data": data, "class": "special"})
        out = os.path.join(self.dir, name)
        json.dump({"root": self.src, "profiles": profiles}, open(out, "w"))
        self.corpus_path = out
        self.corpus_index = profiles
        return out


def tree_hash(root, subdirs):
    h = hashlib.sha256()
    for sd in subdirs:
        for dirpath, dirs, files in sorted(os.walk(os.path.join(root, sd))):
            dirs.sort()
            for f in sorted(files):
                if f.endswith(".go"):
                    p = os.path.join(dirpath, f)
                    h.update(os.path.relpath(p, root).encode())
                    h.update(open(p, "rb").read())
    return h.hexdigest()[:16]


def build_instrumenter():
    os.makedirs(os.path.join(VERIF, "bin"), exist_ok=True)
    sh([GO, "build", "-o", os.path.join(VERIF, "bin", "instrument"), "."], cwd=os.path.join(VERIF, "tools", "instrument"))


# ---------------------------------------------------------------- known findings

def load_known(prop):
    known = []
    path = os.path.join(VERIF, "KNOWN_FINDINGS.txt")
    if not os.path.exists(path):
        return known
    for line in open(path):
        line = line.strip()
        if not line.startswith("known:"):
            continue
        fields = line.split()
        d = {}
        rest = []
        for f in fields[1:]:
            if "=" in f and f.split("=", 1)[0] in ("property", "match") and f.split("=", 1)[0] not in d:
                k, v = f.split("=", 1)
                d[k] = v
            else:
                rest.append(f)
        if d.get("property") == prop and "match" in d:
            known.append((d["match"], " ".join(rest)))
    return known


def match_known(known, sig):
    for m, text in known:
        if m == sig:
            return m, text
    return None


# ---------------------------------------------------------------- evidence

def write_evidence(prop, tier, seed, level, coverage, wall, violations, assumptions):
    evdir = os.environ.get("VERIF_EVIDENCE_DIR") or os.path.join(VERIF, "evidence")  # mutant runs must not overwrite the committed evidence
    os.makedirs(evdir, exist_ok=True)
    ev = {"property_id": prop, "tier": tier, "seed": int(seed), "level": level, "coverage": coverage,
          "assumptions": assumptions, "wall_s": round(wall, 2), "violations": int(violations)}
    path = os.path.join(evdir, prop + ".json")
    tmp = path + ".tmp"
    json.dump(ev, open(tmp, "w"), indent=1)
    os.replace(tmp, path)
    return path


def out_dir(*parts):
    d = os.path.join(VERIF, "out", *parts)
    os.makedirs(d, exist_ok=True)
    return d


# ---------------------------------------------------------------- engine A batches

class Agg:
    """Aggregates the JSON result lines of engine A batches."""

    def __init__(self):
        self.runs = 0
        self.sigs = set()
        self.schedsigs = set()
        self.stats = {}
        self.probes = {}
        self.samples = []
        self.violations = []
        self.harness = []
        self.ref_procs = 0
        self.ref_hits = 0
        self.wall_ms = 0

    def add(self, r):
        if "batch_done" in r:
            self.ref_procs += r.get("ref_procs", 0)
            self.ref_hits += r.get("ref_hits", 0)
            return
        if "stopped_after_seed" in r:
            return
        self.runs += 1
        self.tracesigs = getattr(self, "tracesigs", {})
        self.tracesigs[r["seed"]] = r.get("tracesig")
        self.wall_ms += r.get("wall_ms", 0)
        self.sim_ms = getattr(self, "sim_ms", 0) + r.get("sim_ms", 0)
        if r.get("nontrivial"):
            self.sigs.add(r["sig"])
        self.schedsigs.add(r.get("schedsig"))
        for k, v in r.get("stats", {}).items():
            self.stats[k] = self.stats.get(k, 0) + v
        for k, v in (r.get("probes") or {}).items():
            self.probes[k] = self.probes.get(k, 0) + v
        if r.get("harness_error"):
            self.harness.append(r)
        if r.get("violation"):
            self.violations.append(r)
        elif r.get("spec") and len(self.samples) < 3:
            self.samples.append({"seed": r["seed"], "spec": r["spec"], "decisions": summarise_dec(r.get("decisions")), "outcomes": r.get("outcomes")})


def summarise_dec(d):
    if not d:
        return d
    return {"switches": (d.get("switches") or [])[:40], "n_switches": len(d.get("switches") or []),
            "maps": (d.get("maps") or [])[:10], "n_maps": len(d.get("maps") or []), "fails": d.get("fails")}


def run_chunk(binary, args, env, timeout):
    e = dict(ENV)
    e.update(env or {})
    try:
        p = subprocess.run([binary] + args, env=e, capture_output=True, text=True, timeout=timeout)
    except subprocess.TimeoutExpired as ex:
        raise HarnessError("watchdog: %s %s did not finish in %ds" % (binary, " ".join(args), timeout))
    lines = []
    for ln in p.stdout.splitlines():
        ln = ln.strip()
        if ln.startswith("{"):
            try:
                lines.append(json.loads(ln))
            except ValueError:
                pass
    return p.returncode, lines, p.stderr


def death_signature(stderr):
    """If the process was killed by a panic / fatal error whose stack runs through repository code (a goroutine the
    library started: no caller can recover it), returns ("process_killed:<function>", first line); else None."""
    import re
    if "panic:" not in stderr and "fatal error:" not in stderr:
        return None
    first = next((l for l in stderr.splitlines() if l.startswith("panic:") or l.startswith("fatal error:")), "")
    for l in stderr.splitlines():
        m = re.match(r"^(github.com/aml-org/amf-custom-validator/[^\s(]+)", l)
        if m and "/simrt" not in m.group(1) and "/simharness" not in m.group(1):
            return "process_killed:" + m.group(1).replace("github.com/aml-org/amf-custom-validator/", ""), first[:300]
    return None


def run_engine_a(sc, binary, mode, tier, seed0, count, chunk, nproc, race=False, timeout=900, stop_on_violation=True, gomaxprocs=4, refbin=None, free=False):
    """Runs `count` seeds starting at seed0 in chunks over nproc processes; returns an Agg."""
    agg = Agg()
    refdir = os.path.join(sc.dir, "refcache")
    racedir = os.path.join(sc.dir, "race")
    os.makedirs(racedir, exist_ok=True)
    chunks = []
    s = seed0
    while s < seed0 + count:
        n = min(chunk, seed0 + count - s)
        chunks.append((s, n))
        s += n

    stop = {"n": 0}

    def work(ch):
        start, n = ch
        done = []
        while n > 0:
            if stop_on_violation and stop["n"] >= 8:
                return done  # enough violations to report; the rest of the budget would only repeat them
            args = ["batch", "-mode", mode, "-tier", tier, "-corpus", sc.corpus_path, "-census", sc.census_path,
                    "-refdir", refdir, "-seeds", "%d:%d" % (start, n), "-samples", "1" if start == seed0 else "0"]
            if free:
                args.append("-free")
            # fresh processes differ in their environment too: the time zone of the process must not show in a report
            # tuning knobs vary per process too: correctness must not depend on the number of Ps
            gmp = gomaxprocs if race or free else [gomaxprocs, 1, 2][(start // max(chunk, 1)) % 3]
            env = {"GOMAXPROCS": str(gmp), "TZ": ["UTC", "Asia/Tokyo", "America/New_York", "Europe/Madrid"][(start // max(chunk, 1)) % 4]}
            if refbin:
                env["SIM_REFBIN"] = refbin
            if race:
                prefix = os.path.join(racedir, "r%d" % start)
                args += ["-racelog", prefix]
                env["GORACE"] = "log_path=%s halt_on_error=0 atexit_sleep_ms=0" % prefix
            rc, lines, err = run_chunk(binary, args, env, timeout)
            done += lines
            stop["n"] += sum(1 for l in lines if l.get("violation"))
            stopped = [l for l in lines if "stopped_after_seed" in l]
            finished = [l for l in lines if "batch_done" in l]
            if finished:
                break
            if stopped:
                last = stopped[0]["stopped_after_seed"]
                n -= (last + 1 - start)
                start = last + 1
                continue
            dead = death_signature(err)
            if dead:
                # the batch process was killed inside the run that was in progress: a panic in a goroutine the library
                # started, which no caller can recover. That run did not "return what it would return alone".
                nres = sum(1 for l in lines if "seed" in l and "sig" in l)
                seed = start + nres
                _, slines, _ = run_chunk(binary, ["batch", "-mode", mode, "-tier", tier, "-corpus", sc.corpus_path, "-census", sc.census_path,
                                                  "-refdir", refdir, "-seeds", "%d:1" % seed, "-speconly"], env, 300)
                spec = next((l["spec"] for l in slines if l.get("seed") == seed), None)
                if spec is None:
                    raise HarnessError("engine A batch %d:%d was killed (%s) and its spec could not be regenerated" % (start, n, dead[1]))
                done.append({"seed": seed, "sig": "dead-%d" % seed, "spec": spec, "decisions": None, "stats": {}, "nontrivial": True,
                             "prefix_seeds": list(range(start, seed)), "tier": tier, "tz": env.get("TZ"), "gomaxprocs": int(env.get("GOMAXPROCS", "4")), "from_seed_only": True,
                             "violation": {"class": "process_killed", "task": -1, "op": -1, "kind": "process_killed", "sig": dead[0],
                                           "detail": "the process was killed by a panic in a goroutine the library started: " + dead[1]}})
                stop["n"] += 1
                n -= (seed + 1 - start)
                start = seed + 1
                continue
            raise HarnessError("engine A batch %d:%d ended unexpectedly (rc=%d): %s" % (start, n, rc, err[-3000:]))
        return done

    with ThreadPoolExecutor(max_workers=nproc) as ex:
        futs = [ex.submit(work, ch) for ch in chunks]
        for f in as_completed(futs):
            for l in f.result():
                agg.add(l)
    return agg


# ---------------------------------------------------------------- replay / minimisation (engine A)

def replay_once(sc, binary, rfile, race=False, timeout=300):
    """Re-executes one recorded run in a fresh process; returns the result line (dict) or None."""
    args = ["batch", "-replay", rfile, "-corpus", sc.corpus_path, "-census", sc.census_path,
            "-refdir", os.path.join(sc.dir, "refcache")]
    env = {"GOMAXPROCS": "4"}
    try:
        rfj = json.load(open(rfile))
        tz, gmp = rfj.get("tz"), rfj.get("gomaxprocs")
    except Exception:
        tz, gmp = None, None
    if tz:
        env["TZ"] = tz  # the environment of the process is part of the run
    if gmp:
        env["GOMAXPROCS"] = str(gmp)
    if race:
        prefix = os.path.join(sc.dir, "race", "replay-%d-%d" % (os.getpid(), random.randrange(1 << 30)))
        args += ["-racelog", prefix]
        env["GORACE"] = "log_path=%s halt_on_error=0 atexit_sleep_ms=0" % prefix
    rc, lines, err = run_chunk(binary, args, env, timeout)
    for l in lines:
        if "seed" in l and "sig" in l:
            return l
    dead = death_signature(err)
    if dead:
        return {"seed": -1, "sig": "dead", "tracesig": "dead", "violation": {"class": "process_killed", "sig": dead[0], "detail": dead[1]}}
    raise HarnessError("replay produced no result (rc=%d): %s" % (rc, err[-2000:]))


def same_violation(res, want):
    v = res.get("violation")
    if not v:
        return False
    return v["class"] == want["class"] and v.get("sig") == want.get("sig")


def minimise_a(sc, binary, rf, race=False, budget=200, wall_budget=240):
    """Greedy delta debugging over one engine A replay file (dict): tasks, ops, switches, map
    permutations, failpoints. A candidate is accepted only if the same violation class with the
    same signature recurs in a fresh process."""
    tries = [0]
    tmpdir = os.path.join(sc.dir, "min")
    os.makedirs(tmpdir, exist_ok=True)
    want = rf["violation"]
    reps = 2 if race else 1

    t_start = time.time()
    if race:
        budget = min(budget, 80)

    def test(cand):
        if tries[0] >= budget or time.time() - t_start > wall_budget:
            return False
        tries[0] += 1
        p = os.path.join(tmpdir, "cand%d.json" % tries[0])
        json.dump(cand, open(p, "w"))
        for _ in range(reps):
            try:
                r = replay_once(sc, binary, p, race)
            except HarnessError:
                return False
            if same_violation(r, want):
                return True
        return False

    def clone(x):
        return json.loads(json.dumps(x))

    cur = clone(rf)
    # 0. runs executed earlier in the same process: drop them all if the violation does not need them,
    #    otherwise delta-debug the list of their seeds
    if cur.get("prefix") and cur["prefix"].get("seeds"):
        c = clone(cur)
        c["prefix"]["seeds"] = []
        if test(c):
            cur = c
        else:
            lst = cur["prefix"]["seeds"]
            n = 2
            while len(lst) >= 1 and tries[0] < budget:
                chunk = max(1, len(lst) // n)
                reduced = False
                for i in range(0, len(lst), chunk):
                    c = clone(cur)
                    c["prefix"]["seeds"] = lst[:i] + lst[i + chunk:]
                    if test(c):
                        cur = c
                        lst = c["prefix"]["seeds"]
                        n = max(n - 1, 2)
                        reduced = True
                        break
                if not reduced:
                    if chunk == 1:
                        break
                    n = min(len(lst), n * 2)
    # 1. serial schedule / identity maps / no failpoints in one go
    for keys in (("switches", "maps", "fails"), ("switches",), ("maps",), ("fails",)):
        c = clone(cur)
        changed = False
        for k in keys:
            if c["decisions"].get(k):
                c["decisions"][k] = []
                changed = True
        if changed and test(c):
            cur = c
    # 2. drop tasks
    ti = len(cur["spec"]["tasks"]) - 1
    while ti >= 0 and len(cur["spec"]["tasks"]) > 1:
        c = clone(cur)
        del c["spec"]["tasks"][ti]
        sw = []
        for s in c["decisions"].get("switches") or []:
            if s["t"] == ti or s["n"] == ti:
                continue
            s2 = dict(s)
            if s2["t"] > ti:
                s2["t"] -= 1
            if s2["n"] > ti:
                s2["n"] -= 1
            sw.append(s2)
        c["decisions"]["switches"] = sw
        if test(c):
            cur = c
        ti -= 1
    # 3. drop ops (never a compile that a later op of the same task needs: the driver skips those ops itself)
    for ti in range(len(cur["spec"]["tasks"])):
        oi = len(cur["spec"]["tasks"][ti]) - 1
        while oi >= 0:
            if len(cur["spec"]["tasks"][ti]) > 1 or len(cur["spec"]["tasks"]) > 1:
                c = clone(cur)
                del c["spec"]["tasks"][ti][oi]
                if not c["spec"]["tasks"][ti]:
                    pass
                elif test(c):
                    cur = c
            oi -= 1
    if cur["spec"].get("prologue"):
        for oi in range(len(cur["spec"]["prologue"]) - 1, -1, -1):
            c = clone(cur)
            del c["spec"]["prologue"][oi]
            if test(c):
                cur = c
    # 4. ddmin over lists of decisions
    for key in ("switches", "maps", "fails"):
        lst = cur["decisions"].get(key) or []
        n = 2
        while len(lst) >= 1 and tries[0] < budget:
            chunk = max(1, len(lst) // n)
            reduced = False
            for i in range(0, len(lst), chunk):
                c = clone(cur)
                c["decisions"][key] = lst[:i] + lst[i + chunk:]
                if test(c):
                    cur = c
                    lst = c["decisions"][key]
                    n = max(n - 1, 2)
                    reduced = True
                    break
            if not reduced:
                if chunk == 1:
                    break
                n = min(len(lst), n * 2)
    cur["minimised"] = {"candidates_tried": tries[0]}
    return cur


def report_violations_a(prop, sc, binary, agg, race=False, max_report=2):
    """Turns the violations of an engine A aggregate into KNOWN-FINDING / VIOLATION lines.
    Returns the number of VIOLATION lines printed."""
    known = load_known(prop)
    by_sig = {}
    for r in agg.violations:
        by_sig.setdefault(r["violation"]["sig"], []).append(r)
    reported = 0
    for sig, runs in sorted(by_sig.items()):
        k = match_known(known, sig)
        if k:
            print("KNOWN-FINDING: property=%s %s (%s; seen in %d runs, first seed %d)" % (prop, k[1], sig, len(runs), runs[0]["seed"]), flush=True)
            continue
        if reported >= max_report:
            log("further violation signature not minimised:", sig, "seeds", [r["seed"] for r in runs[:5]])
            continue
        r = min(runs, key=lambda x: x["seed"])
        rf = {"property": prop, "engine": "A-race" if race else "A", "seed": r["seed"], "tree": sc.tree_hash,
              "spec": r["spec"], "decisions": r["decisions"], "violation": r["violation"], "tz": r.get("tz"), "gomaxprocs": r.get("gomaxprocs"),
              "prefix": {"mode": r["spec"]["mode"], "tier": r.get("tier", "quick"), "seeds": r.get("prefix_seeds") or []}}
        rdir = out_dir("replays")
        raw = os.path.join(rdir, "%s-%d-raw.json" % (prop, r["seed"]))
        json.dump(rf, open(raw, "w"), indent=1)
        try:
            # a run that killed its process left no decision list: it is re-executed from its seed, not minimised
            small = rf if r.get("from_seed_only") else minimise_a(sc, binary, rf, race)
        except Exception as ex:  # minimisation is best effort; the raw file still replays
            log("minimisation failed:", ex)
            small = rf
        final = os.path.join(rdir, "%s-%d.json" % (prop, r["seed"]))
        json.dump(small, open(final, "w"), indent=1)
        # confirm in fresh processes. An observed mismatch against a fresh-process reference (or a detector report) is
        # never a false positive, but the tree under test may contain nondeterminism the simulator does not own
        # (sync.Pool, GC timing, goroutines of its own). Exact: recurs every time with an identical trace. Otherwise
        # the violation is still reported when it recurs at least once in six re-executions, and the file says so;
        # if even the unminimised file never recurs the result is demoted to harness trouble (exit 2).
        def confirm(path, n):
            sigs, recur = [], 0
            for _ in range(n):
                rr = replay_once(sc, binary, path, race)
                sigs.append(rr.get("tracesig"))
                if same_violation(rr, small["violation"]):
                    recur += 1
            return recur, len(set(sigs)) == 1

        n = 5 if race else 2
        recur, ident = confirm(final, n)
        mode = "exact" if (recur == n and (ident or race)) else None
        if mode is None:
            n = 6
            recur, ident = confirm(final, n)
            if recur >= 1:
                mode = "recurs %d of %d (nondeterminism in the tree under test that the simulator does not own)" % (recur, n)
            else:
                recur, ident = confirm(raw, n)
                if recur >= 1 or race:
                    final = raw
                    small = rf
                    mode = "only the unminimised run recurs (%d of %d)" % (recur, n)
        if mode is None:
            raise HarnessError("violation %s of seed %d does not replay (0 of %d, also unminimised); raw file %s" % (sig, r["seed"], n, raw))
        small["replays"] = {"attempts": n, "recurred": recur, "trace_identical": ident, "mode": mode}
        json.dump(small, open(final, "w"), indent=1)
        print("VIOLATION property=%s replay=%s" % (prop, final), flush=True)
        log("  class=%s sig=%s detail=%s" % (small["violation"]["class"], sig, small["violation"]["detail"][:600].replace("\n", " | ")))
        reported += 1
    return reported
