package simrt

import (
	"runtime"
	"sync"
	"time"
)

// Engine A: the baton scheduler.
//
// Tasks are real goroutines; exactly one of them holds the baton and runs, the others spin
// in waitBaton. The baton is a plain variable that is only touched inside //go:norace
// functions, so the hand-off creates no happens-before edge the race detector can see: what
// the detector reports under this scheduler is a race of the library under its *own*
// synchronisation. Every decision comes from one splitmix64 stream (or from a recorded
// decision list in replay mode) and is appended to a trace by code that neither draws from
// the stream nor reads a clock.

const MaxTasks = 8

// SpinBeforeSleep: Gosched iterations of a waiting task before it starts sleeping between polls.
var SpinBeforeSleep = 200

const (
	stRunnable = iota
	stParked
	stDone
	stBlockedReal // blocked on a real synchronisation primitive of the library (degraded mode)
)

// SwitchPoint: at the K-th scheduling point of Task (K = -1: when Task finished) run Next.
type SwitchPoint struct {
	Task int `json:"t"`
	K    int `json:"k"`
	Next int `json:"n"`
}

// MapDecision: the Idx-th map range of the run (1-based) used permutation Perm of the sorted keys.
type MapDecision struct {
	Idx  int    `json:"i"`
	Site string `json:"s"`
	Perm []int  `json:"p"`
}

// FailDecision: the Nth execution (1-based) of failpoint Site fires.
type FailDecision struct {
	Site string `json:"s"`
	Nth  int    `json:"n"`
}

type Policy struct {
	SwitchPPM  uint32         `json:"switch_ppm"`  // probability (per million) of a switch at an ordinary point
	Directed   bool           `json:"directed"`    // race-directed parking at hot sites
	ParkPPM    uint32         `json:"park_ppm"`    // probability of parking at a hot site (directed)
	PCT        []int          `json:"pct"`         // global steps at which a preemption is forced
	Torn       bool           `json:"torn"`        // split read-modify-write of package state
	MapMode    int            `json:"map_mode"`    // 0 identity, 1 random permutations
	ParkBudget int            `json:"park_budget"` // steps after which a parked task becomes runnable again
	FailPlan   []FailDecision `json:"fail_plan"`
}

type Stats struct {
	Steps       int `json:"steps"`
	Switches    int `json:"switches"`
	Parks       int `json:"parks"`
	Directed    int `json:"directed_pairs"` // a parked task was resumed right after another task's access to the same variable
	Foreign     int `json:"foreign_yields"`
	TornFired   int `json:"torn_fired"`
	MapRanges   int `json:"map_ranges"`
	MapPermuted int `json:"map_permuted"` // non-identity permutation applied to a map with >= 2 keys
	FailFired   int `json:"fail_fired"`
	Blocked     int `json:"lock_blocked"`
	Degraded    int `json:"forced_handoffs_from_blocked_task"` // the baton holder blocked on a channel / WaitGroup / Cond of the library
}

type failCount struct {
	site string
	n    int
}

type Sched struct {
	// CheckForeign: verify at every scheduling point that the caller is the task holding the
	// baton (needed only when repo code starts goroutines of its own; costs a stack walk)
	CheckForeign bool

	N      int
	Pol    Policy
	Replay bool
	// replay inputs
	RSwitch []SwitchPoint
	RMap    []MapDecision

	baton int
	cur   int
	state [MaxTasks]uint8
	pvar  [MaxTasks]string
	pat   [MaxTasks]int
	k     [MaxTasks]int
	goid  [MaxTasks]uint64
	pend  int
	step  int
	rng   uint64
	mapIx int
	failN []failCount

	OpTime [MaxTasks]time.Time

	// degraded mode: repo code made the baton holder block on real synchronisation with another
	// task (a channel, WaitGroup, Cond... introduced by an edit). The monitor then takes the baton
	// away from it; from here on tasks are identified by goroutine id and the run is no longer
	// exactly replayable (it is flagged, and replays are accepted k-of-n).
	degraded bool
	stopMon  chan struct{}

	Trace     []SwitchPoint
	MapTrace  []MapDecision
	FailTrace []FailDecision
	St        Stats
	wg        sync.WaitGroup
}

func NewSched(n int, seed uint64, pol Policy) *Sched {
	s := &Sched{N: n, Pol: pol, rng: seed, pend: -1}
	s.Trace = make([]SwitchPoint, 0, 1024)
	s.MapTrace = make([]MapDecision, 0, 256)
	s.failN = make([]failCount, 0, 64)
	if s.Pol.ParkBudget == 0 {
		s.Pol.ParkBudget = 400
	}
	return s
}

// SetReplay switches the scheduler to replaying recorded decisions.
func (s *Sched) SetReplay(sw []SwitchPoint, maps []MapDecision) {
	s.Replay = true
	s.RSwitch = sw
	s.RMap = maps
}

//go:norace
func (s *Sched) next64() uint64 {
	s.rng += 0x9e3779b97f4a7c15
	z := s.rng
	z = (z ^ (z >> 30)) * 0xbf58476d1ce4e5b9
	z = (z ^ (z >> 27)) * 0x94d049bb133111eb
	return z ^ (z >> 31)
}

// lookup finds the recorded successor for (task, k); no maps here: runtime map operations are
// visible to the race detector even when called from //go:norace code.
//
//go:norace
func (s *Sched) lookup(task, k int) (int, bool) {
	for i := range s.RSwitch {
		if s.RSwitch[i].Task == task && s.RSwitch[i].K == k {
			return s.RSwitch[i].Next, true
		}
	}
	return 0, false
}

//go:norace
func (s *Sched) isPCT(step int) bool {
	for _, p := range s.Pol.PCT {
		if p == step {
			return true
		}
	}
	return false
}

//go:norace
func (s *Sched) chance(ppm uint32) bool {
	if ppm == 0 {
		return false
	}
	return uint32(s.next64()%1000000) < ppm
}

//go:norace
func curGoid() uint64 {
	var buf [40]byte
	n := runtime.Stack(buf[:], false)
	// "goroutine 123 ["
	var id uint64
	for i := 10; i < n; i++ {
		c := buf[i]
		if c < '0' || c > '9' {
			break
		}
		id = id*10 + uint64(c-'0')
	}
	return id
}

//go:norace
func (s *Sched) waitBaton(me int) {
	for i := 0; s.baton != me; i++ {
		if i < SpinBeforeSleep {
			runtime.Gosched()
		} else {
			// sleeping creates no happens-before edge either; it only keeps N-1 waiting tasks
			// from burning N-1 cores
			time.Sleep(20 * time.Microsecond)
		}
	}
}

//go:norace
func (s *Sched) runnable(t int) bool {
	switch s.state[t] {
	case stRunnable:
		return true
	case stParked:
		return s.step-s.pat[t] > s.Pol.ParkBudget
	}
	return false
}

// pickOther returns a runnable task other than me chosen by the stream, or -1.
//
//go:norace
func (s *Sched) pickOther(me int) int {
	var c [MaxTasks]int
	n := 0
	for t := 0; t < s.N; t++ {
		if t != me && s.runnable(t) {
			c[n] = t
			n++
		}
	}
	if n == 0 {
		return -1
	}
	return c[int(s.next64()%uint64(n))]
}

//go:norace
func (s *Sched) anyNotDone(me int) int {
	for t := 0; t < s.N; t++ {
		if t != me && s.state[t] != stDone {
			return t
		}
	}
	return -1
}

//go:norace
func (s *Sched) handOff(me, next int) {
	s.Trace = append(s.Trace, SwitchPoint{me, s.k[me], next})
	s.St.Switches++
	if s.state[next] == stParked {
		s.state[next] = stRunnable
	}
	s.cur = next
	s.baton = next
	s.waitBaton(me)
}

// point is a scheduling point of the running task. hot != "" marks an access to shared
// package state; forceHigh marks the middle of a torn read-modify-write.
//
//go:norace
func (s *Sched) point(site, hot string, forceHigh bool) {
	if NoYield > 0 {
		return
	}
	me := s.cur
	if s.degraded {
		g := curGoid()
		who := -1
		for t := 0; t < s.N; t++ {
			if s.goid[t] == g {
				who = t
			}
		}
		if who < 0 {
			s.St.Foreign++
			return
		}
		if who != me {
			// this task lost the baton while it was blocked; it has been running since it woke up:
			// wait for the baton before going on
			s.state[who] = stRunnable
			s.waitBaton(who)
			me = who
		}
	} else if s.CheckForeign && curGoid() != s.goid[me] {
		s.St.Foreign++
		return
	}
	s.k[me]++
	s.step++
	s.St.Steps++
	if s.Replay {
		if nx, ok := s.lookup(me, s.k[me]); ok && nx != me && nx >= 0 && nx < s.N && s.state[nx] != stDone {
			s.handOff(me, nx)
		}
		return
	}
	if s.pend >= 0 {
		nx := s.pend
		s.pend = -1
		if nx != me && s.state[nx] != stDone {
			s.St.Directed++
			s.handOff(me, nx)
			return
		}
	}
	if hot != "" && s.Pol.Directed {
		for t := 0; t < s.N; t++ {
			if t != me && s.state[t] == stParked && s.pvar[t] == hot {
				// let me perform my access now, resume t right after it
				s.pend = t
				return
			}
		}
		if s.chance(s.Pol.ParkPPM) {
			if nx := s.pickOther(me); nx >= 0 {
				s.state[me] = stParked
				s.pvar[me] = hot
				s.pat[me] = s.step
				s.St.Parks++
				s.handOff(me, nx)
				s.state[me] = stRunnable
				return
			}
		}
	}
	if s.isPCT(s.step) || (forceHigh && s.chance(500000)) || s.chance(s.Pol.SwitchPPM) {
		if nx := s.pickOther(me); nx >= 0 {
			s.handOff(me, nx)
		}
	}
}

//go:norace
func (s *Sched) yield(site string) {
	n := len(site)
	s.point(site, "", n > 4 && site[n-4:] == "#rmw")
}

//go:norace
func (s *Sched) hot(site, v string) { s.point(site, v, false) }

//go:norace
func (s *Sched) torn(site string) bool {
	if s.Pol.Torn {
		s.St.TornFired++
		return true
	}
	return false
}

// blocked is called while the running task waits for a library lock another task holds.
//
//go:norace
func (s *Sched) blocked() {
	me := s.cur
	s.k[me]++
	s.step++
	s.St.Blocked++
	nx := -1
	if s.Replay {
		if r, ok := s.lookup(me, s.k[me]); ok && r != me && r >= 0 && r < s.N && s.state[r] != stDone {
			nx = r
		}
	}
	if nx < 0 {
		nx = s.pickOther(me)
	}
	if nx < 0 {
		nx = s.anyNotDone(me)
	}
	if nx < 0 {
		panic("simrt: task blocked on a lock and nobody else can run")
	}
	s.handOff(me, nx)
}

//go:norace
func (s *Sched) finish(me int) {
	if s.degraded && s.cur != me {
		// finished without holding the baton (it was taken away while this task was blocked)
		s.state[me] = stDone
		return
	}
	s.state[me] = stDone
	nx := -1
	if s.Replay {
		if r, ok := s.lookup(me, -1); ok && r >= 0 && r < s.N && s.state[r] != stDone {
			nx = r
		}
		if nx < 0 {
			nx = s.anyNotDone(me)
		}
	} else {
		if s.pend >= 0 && s.state[s.pend] != stDone {
			nx = s.pend
			s.pend = -1
		}
		if nx < 0 {
			nx = s.pickOther(me)
		}
		if nx < 0 {
			nx = s.anyNotDone(me) // only parked tasks left: resume one
		}
	}
	if nx < 0 {
		return
	}
	s.Trace = append(s.Trace, SwitchPoint{me, -1, nx})
	if s.state[nx] == stParked {
		s.state[nx] = stRunnable
	}
	s.cur = nx
	s.baton = nx
}

//go:norace
func (s *Sched) mapOrder(site string, n int) []int {
	s.mapIx++
	s.St.MapRanges++
	var perm []int
	if s.Replay {
		for i := range s.RMap {
			if s.RMap[i].Idx == s.mapIx {
				perm = s.RMap[i].Perm
			}
		}
		if len(perm) != n {
			return nil
		}
	} else {
		if s.Pol.MapMode == 0 {
			return nil
		}
		perm = make([]int, n)
		for i := range perm {
			perm[i] = i
		}
		for i := n - 1; i > 0; i-- {
			j := int(s.next64() % uint64(i+1))
			perm[i], perm[j] = perm[j], perm[i]
		}
	}
	ident := true
	for i, j := range perm {
		if i != j {
			ident = false
		}
	}
	if ident {
		return nil
	}
	s.St.MapPermuted++
	s.MapTrace = append(s.MapTrace, MapDecision{s.mapIx, site, perm})
	return perm
}

// selectOrder: polling order of a rewritten select (R7b); recorded and replayed like a map permutation.
//
//go:norace
func (s *Sched) selectOrder(site string, n int) []int {
	return s.mapOrderOrIdentity("select@"+site, n)
}

//go:norace
func (s *Sched) mapOrderOrIdentity(site string, n int) []int {
	saved := s.Pol.MapMode
	s.Pol.MapMode = 1
	p := s.mapOrder(site, n)
	s.Pol.MapMode = saved
	if p == nil {
		p = make([]int, n)
		for i := range p {
			p[i] = i
		}
	}
	return p
}

//go:norace
func (s *Sched) fail(site string) error {
	n := 0
	for i := range s.failN {
		if s.failN[i].site == site {
			s.failN[i].n++
			n = s.failN[i].n
		}
	}
	if n == 0 {
		s.failN = append(s.failN, failCount{site, 1})
		n = 1
	}
	for _, f := range s.Pol.FailPlan {
		if f.Site == site && f.Nth == n {
			s.St.FailFired++
			s.FailTrace = append(s.FailTrace, f)
			return &InjectedError{Site: site}
		}
	}
	return nil
}

//go:norace
func (s *Sched) now() time.Time { return s.OpTime[s.cur] }

//go:norace
func (s *Sched) setGoid(i int) { s.goid[i] = curGoid() }

//go:norace
func noYieldAdd(d int) { NoYield += d }

// Run executes the tasks under the scheduler and returns when all have finished.
// A task must not let a panic escape (the driver wraps library calls in recover).
func (s *Sched) Run(tasks []func()) {
	if len(tasks) != s.N || s.N > MaxTasks {
		panic("simrt: bad task count")
	}
	YieldHook = s.yield
	HotHook = s.hot
	MapOrderHook = s.mapOrder
	FailHook = s.fail
	NowHook = s.now
	TornHook = s.torn
	BlockedHook = s.blocked
	SelectHook = s.selectOrder
	s.baton = -1
	s.wg.Add(s.N)
	for i := range tasks {
		i := i
		go func() {
			s.setGoid(i)
			s.waitBaton(i)
			tasks[i]()
			s.finish(i)
			s.wg.Done()
		}()
	}
	s.start()
	s.stopMon = make(chan struct{})
	go s.monitor()
	s.wg.Wait()
	close(s.stopMon)
	YieldHook, HotHook, MapOrderHook, FailHook, NowHook, TornHook, BlockedHook, SelectHook = nil, nil, nil, nil, nil, nil, nil, nil
}

//go:norace
func (s *Sched) start() {
	first := 0
	if s.Replay {
		if r, ok := s.lookup(-1, 0); ok && r >= 0 && r < s.N {
			first = r
		}
	} else {
		first = int(s.next64() % uint64(s.N))
	}
	s.Trace = append(s.Trace, SwitchPoint{-1, 0, first})
	s.cur = first
	s.baton = first
}

// FailCount is the number of failpoints fired so far (read by the driver between operations).
//
//go:norace
func (s *Sched) FailCount() int { return s.St.FailFired }

// DeadlockHook is called (once) when all unfinished tasks have been blocked on library
// synchronisation, with nothing runnable in the process, for DeadlockSamples monitor periods.
var DeadlockHook func(stacks string)

// DeadlockSamples x ~30 ms of complete standstill before a deadlock is declared.
var DeadlockSamples = 1500

// nothingRunnable: no goroutine other than the monitor is running or runnable.
//
//go:norace
func (s *Sched) nothingRunnable(buf []byte) bool {
	n := runtime.Stack(buf, true)
	text := string(buf[:n])
	count := 0
	for i := 0; i+10 < len(text); {
		j := indexOf(text[i:], "goroutine ")
		if j < 0 {
			break
		}
		i += j + 10
		k := indexOf(text[i:], "[")
		if k < 0 || k > 24 {
			continue
		}
		st := text[i+k+1:]
		if hasPrefix(st, "running") || hasPrefix(st, "runnable") || hasPrefix(st, "syscall") {
			count++
		}
	}
	return count <= 1 // the monitor itself is running
}

func hasPrefix(s, p string) bool { return len(s) >= len(p) && s[:len(p)] == p }

var blockedStates = []string{"chan receive", "chan send", "select", "semacquire", "sync.Cond.Wait", "sync.WaitGroup.Wait",
	"sync.Mutex.Lock", "sync.RWMutex.RLock", "sync.RWMutex.Lock", "sleep", "IO wait"}

// holderBlocked reports whether the goroutine holding the baton is parked in a blocking state.
//
//go:norace
func (s *Sched) holderBlocked(buf []byte) bool {
	cur := s.cur
	if cur < 0 || cur >= s.N {
		return false
	}
	n := runtime.Stack(buf, true)
	text := string(buf[:n])
	needle := "goroutine " + utoa(s.goid[cur]) + " ["
	i := indexOf(text, needle)
	if i < 0 {
		return false
	}
	rest := text[i+len(needle):]
	for _, st := range blockedStates {
		if len(rest) >= len(st) && rest[:len(st)] == st {
			return true
		}
	}
	return false
}

func utoa(v uint64) string {
	if v == 0 {
		return "0"
	}
	var b [20]byte
	i := len(b)
	for v > 0 {
		i--
		b[i] = byte('0' + v%10)
		v /= 10
	}
	return string(b[i:])
}

func indexOf(s, sub string) int {
	for i := 0; i+len(sub) <= len(s); i++ {
		if s[i:i+len(sub)] == sub {
			return i
		}
	}
	return -1
}

// monitor runs outside the baton. When the holder makes no progress and is parked on a real
// synchronisation primitive, the baton is handed to another task (degraded mode).
//
//go:norace
func (s *Sched) monitor() {
	buf := make([]byte, 1<<20)
	last := -1
	still := 0
	allBlocked := 0
	for {
		select {
		case <-s.stopMon:
			return
		case <-time.After(10 * time.Millisecond):
		}
		st := s.step
		if st != last {
			last = st
			still = 0
			continue
		}
		still++
		if still < 5 || !s.holderBlocked(buf) {
			continue
		}
		// confirmed twice more, 10 ms apart, with no progress in between
		time.Sleep(10 * time.Millisecond)
		if s.step != st || !s.holderBlocked(buf) {
			continue
		}
		cur := s.cur
		if s.state[cur] == stDone {
			continue
		}
		s.degraded = true
		s.state[cur] = stBlockedReal
		nx := s.pickOther(cur)
		if nx < 0 {
			for t := 0; t < s.N; t++ {
				if t != cur && s.state[t] == stParked {
					nx = t
				}
			}
		}
		if nx < 0 {
			s.state[cur] = stRunnable
			// every task that is not finished is blocked on synchronisation of the library. If nothing in the
			// process is runnable either (no goroutine of the library computing something the tasks wait
			// for) and that stays so for a minute, the calls will never return: a deadlock of the callers.
			if s.nothingRunnable(buf) {
				allBlocked++
			} else {
				allBlocked = 0
			}
			if allBlocked > DeadlockSamples && DeadlockHook != nil {
				n := runtime.Stack(buf, true)
				DeadlockHook(string(buf[:n]))
				return
			}
			continue
		}
		allBlocked = 0
		s.St.Degraded++
		s.Trace = append(s.Trace, SwitchPoint{cur, -2, nx})
		if s.state[nx] == stParked {
			s.state[nx] = stRunnable
		}
		s.cur = nx
		s.baton = nx
		still = 0
	}
}
