// Package simos is what the CLI under test sees instead of package os (engine C). The process,
// its arguments, stdout, stderr and exit status are real; the file system is a simulated disk
// loaded from and written back to a JSON image owned by the driver, with a seeded fault plan.
package simos

import (
	"encoding/base64"
	"encoding/json"
	"errors"
	"fmt"
	"io"
	"io/fs"
	"os"
	"path"
	"sort"
	"strconv"
	"strings"
	"syscall"
	"time"
)

// ---- pass-through parts of package os ----

var (
	Args   = os.Args
	Stdin  = os.Stdin
	Stdout = os.Stdout
	Stderr = os.Stderr

	ErrNotExist   = fs.ErrNotExist
	ErrExist      = fs.ErrExist
	ErrPermission = fs.ErrPermission
	ErrInvalid    = fs.ErrInvalid
	ErrClosed     = fs.ErrClosed
)

const (
	O_RDONLY = os.O_RDONLY
	O_WRONLY = os.O_WRONLY
	O_RDWR   = os.O_RDWR
	O_APPEND = os.O_APPEND
	O_CREATE = os.O_CREATE
	O_EXCL   = os.O_EXCL
	O_SYNC   = os.O_SYNC
	O_TRUNC  = os.O_TRUNC

	ModePerm = fs.ModePerm
	ModeDir  = fs.ModeDir

	PathSeparator = '/'
)

type (
	FileMode  = fs.FileMode
	FileInfo  = fs.FileInfo
	PathError = fs.PathError
	DirEntry  = fs.DirEntry
)

func Getenv(k string) string            { return os.Getenv(k) }
func LookupEnv(k string) (string, bool) { return os.LookupEnv(k) }
func Getpid() int                       { return os.Getpid() }
func Getwd() (string, error)            { return "/work", nil }
func TempDir() string                   { return "/tmp" }
func IsNotExist(err error) bool         { return errors.Is(err, fs.ErrNotExist) }
func IsExist(err error) bool            { return errors.Is(err, fs.ErrExist) }
func IsPermission(err error) bool       { return errors.Is(err, fs.ErrPermission) }

// ---- the simulated disk ----

type node struct {
	Data    []byte
	Mode    uint32
	Dir     bool
	Durable []byte // content as of the last successful Sync; nil = never made durable
	HasDur  bool
	Mtime   int64 // unix seconds on the simulated clock (SIM_NOW) of the last create / write / truncate
}

type imgFile struct {
	Data    string `json:"data"` // base64
	Mode    uint32 `json:"mode"`
	Dir     bool   `json:"dir,omitempty"`
	Durable string `json:"durable,omitempty"` // base64
	HasDur  bool   `json:"has_durable,omitempty"`
	Mtime   int64  `json:"mtime,omitempty"`
}

// Fault: the Nth (1-based) operation Op on Path fails with Err; for "write", After bytes are
// written before the failure (short write). Op "read" with Err "SHORT" returns only After bytes
// and no error (a torn read that the reader cannot notice).
type Fault struct {
	Op    string `json:"op"` // open | create | read | write | sync | stat | close | truncate
	Path  string `json:"path"`
	Nth   int    `json:"nth"`
	Err   string `json:"err"` // EIO ENOSPC EACCES EISDIR ENOENT EROFS SHORT
	After int    `json:"after"`
	Fired bool   `json:"fired"`
}

type image struct {
	Files  map[string]*imgFile `json:"files"`
	Faults []*Fault            `json:"faults"`
	Log    []string            `json:"log"`
}

var (
	disk    = map[string]*node{}
	faults  []*Fault
	oplog   []string
	counts  = map[string]int{}
	loaded  bool
	outPath string
	simNow  int64 // the simulated clock of this process (SIM_NOW); stamps modification times
	tmpSeq  int   // CreateTemp / MkdirTemp names are a counter, not random
)

func errno(name string) error {
	switch name {
	case "EIO":
		return syscall.EIO
	case "ENOSPC":
		return syscall.ENOSPC
	case "EACCES":
		return syscall.EACCES
	case "EISDIR":
		return syscall.EISDIR
	case "ENOENT":
		return syscall.ENOENT
	case "EROFS":
		return syscall.EROFS
	case "EINTR":
		return syscall.EINTR
	}
	return syscall.EIO
}

func norm(p string) string {
	if !strings.HasPrefix(p, "/") {
		p = "/work/" + p
	}
	return path.Clean(p)
}

// Load reads the disk image named by SIM_DISK (no image: an empty disk with /work).
func Load() {
	if loaded {
		return
	}
	loaded = true
	outPath = os.Getenv("SIM_DISK_OUT")
	if v, err := strconv.ParseInt(os.Getenv("SIM_NOW"), 10, 64); err == nil {
		simNow = v
	}
	disk["/"] = &node{Dir: true, Mode: 0o755}
	disk["/work"] = &node{Dir: true, Mode: 0o755}
	in := os.Getenv("SIM_DISK")
	if in == "" {
		return
	}
	b, err := os.ReadFile(in)
	if err != nil {
		fmt.Fprintln(os.Stderr, "simos: cannot read disk image:", err)
		os.Exit(97)
	}
	var img image
	if err := json.Unmarshal(b, &img); err != nil {
		fmt.Fprintln(os.Stderr, "simos: bad disk image:", err)
		os.Exit(97)
	}
	for p, f := range img.Files {
		d, _ := base64.StdEncoding.DecodeString(f.Data)
		n := &node{Data: d, Mode: f.Mode, Dir: f.Dir, HasDur: f.HasDur, Mtime: f.Mtime}
		if f.HasDur {
			n.Durable, _ = base64.StdEncoding.DecodeString(f.Durable)
		}
		disk[norm(p)] = n
	}
	faults = img.Faults
}

// Flush writes the resulting image to SIM_DISK_OUT; called on every way out of the process.
func Flush() {
	if outPath == "" {
		return
	}
	img := image{Files: map[string]*imgFile{}, Faults: faults, Log: oplog}
	for p, n := range disk {
		f := &imgFile{Data: base64.StdEncoding.EncodeToString(n.Data), Mode: n.Mode, Dir: n.Dir, HasDur: n.HasDur, Mtime: n.Mtime}
		if n.HasDur {
			f.Durable = base64.StdEncoding.EncodeToString(n.Durable)
		}
		img.Files[p] = f
	}
	b, _ := json.Marshal(img)
	tmp := outPath + ".tmp"
	if err := os.WriteFile(tmp, b, 0o644); err == nil {
		os.Rename(tmp, outPath)
	}
}

// Exit flushes the disk image and ends the process with the real exit status.
func Exit(code int) {
	Flush()
	os.Exit(code)
}

// Run is the process wrapper: load the disk, run the CLI's main, flush the disk on every way
// out (return, os.Exit, panic). A panic is re-raised so that the real runtime prints it and the
// real exit status (2) is what the driver observes.
func Run(main func()) {
	Load()
	defer func() {
		r := recover()
		Flush()
		if r != nil {
			panic(r)
		}
	}()
	main()
}

func logf(format string, a ...any) { oplog = append(oplog, fmt.Sprintf(format, a...)) }

// fault returns the planned fault for this occurrence of (op, path), if any.
func fault(op, p string) *Fault {
	key := op + " " + p
	counts[key]++
	counts[op+" *"]++
	for _, f := range faults {
		match := (f.Path == "*" && f.Nth == counts[op+" *"]) || (f.Path != "*" && norm(f.Path) == p && f.Nth == counts[key])
		if f.Op == op && match && !f.Fired {
			f.Fired = true
			logf("FAULT %s %s #%d -> %s", op, p, f.Nth, f.Err)
			if f.Err == "CRASH" && op != "write" {
				crash()
			}
			return f
		}
	}
	return nil
}

// crash: the process dies at this very operation (kill -9, power loss): nothing after it runs.
// The disk image is flushed as it is; the driver may then discard what was not made durable.
func crash() {
	Flush()
	os.Exit(137)
}

func parentOK(p string) error {
	par := path.Dir(p)
	n, ok := disk[par]
	if !ok {
		return syscall.ENOENT
	}
	if !n.Dir {
		return syscall.ENOTDIR
	}
	return nil
}

type fileInfo struct {
	name string
	n    *node
}

func (fi fileInfo) Name() string { return fi.name }
func (fi fileInfo) Size() int64  { return int64(len(fi.n.Data)) }
func (fi fileInfo) Mode() fs.FileMode {
	m := fs.FileMode(fi.n.Mode)
	if fi.n.Dir {
		m |= fs.ModeDir
	}
	return m
}
func (fi fileInfo) ModTime() time.Time { return time.Unix(fi.n.Mtime, 0) }
func (fi fileInfo) IsDir() bool        { return fi.n.Dir }
func (fi fileInfo) Sys() any           { return nil }

func Stat(name string) (FileInfo, error) {
	Load()
	p := norm(name)
	if f := fault("stat", p); f != nil {
		return nil, &PathError{Op: "stat", Path: name, Err: errno(f.Err)}
	}
	if err := parentOK(p); err != nil && p != "/" {
		logf("stat %s -> %v", p, err)
		return nil, &PathError{Op: "stat", Path: name, Err: err}
	}
	n, ok := disk[p]
	if !ok {
		logf("stat %s -> ENOENT", p)
		return nil, &PathError{Op: "stat", Path: name, Err: syscall.ENOENT}
	}
	logf("stat %s -> ok size=%d", p, len(n.Data))
	return fileInfo{path.Base(p), n}, nil
}

func Lstat(name string) (FileInfo, error) { return Stat(name) }

// File is the simulated *os.File.
type File struct {
	name   string
	p      string
	n      *node
	off    int64
	flag   int
	closed bool
}

func OpenFile(name string, flag int, perm FileMode) (*File, error) {
	Load()
	p := norm(name)
	if f := fault("open", p); f != nil {
		return nil, &PathError{Op: "open", Path: name, Err: errno(f.Err)}
	}
	if err := parentOK(p); err != nil {
		logf("open %s flag=%#x -> %v", p, flag, err)
		return nil, &PathError{Op: "open", Path: name, Err: err}
	}
	n, ok := disk[p]
	acc := flag & (O_RDONLY | O_WRONLY | O_RDWR)
	wantW := acc == O_WRONLY || acc == O_RDWR
	wantR := acc == O_RDONLY || acc == O_RDWR
	if !ok {
		if flag&O_CREATE == 0 {
			logf("open %s flag=%#x -> ENOENT", p, flag)
			return nil, &PathError{Op: "open", Path: name, Err: syscall.ENOENT}
		}
		if f := fault("create", p); f != nil {
			return nil, &PathError{Op: "open", Path: name, Err: errno(f.Err)}
		}
		if disk[path.Dir(p)].Mode&0o200 == 0 {
			logf("open %s flag=%#x -> EACCES (directory not writable)", p, flag)
			return nil, &PathError{Op: "open", Path: name, Err: syscall.EACCES}
		}
		n = &node{Mode: uint32(perm & 0o777), Mtime: simNow}
		if n.Mode == 0 && perm == 0 {
			n.Mode = 0
		}
		disk[p] = n
		logf("open %s flag=%#x -> created mode=%#o", p, flag, n.Mode)
		return &File{name: name, p: p, n: n, flag: flag}, nil
	}
	if flag&O_CREATE != 0 && flag&O_EXCL != 0 {
		logf("open %s flag=%#x -> EEXIST", p, flag)
		return nil, &PathError{Op: "open", Path: name, Err: syscall.EEXIST}
	}
	if n.Dir && wantW {
		logf("open %s flag=%#x -> EISDIR", p, flag)
		return nil, &PathError{Op: "open", Path: name, Err: syscall.EISDIR}
	}
	if (wantW && n.Mode&0o200 == 0) || (wantR && n.Mode&0o400 == 0) {
		logf("open %s flag=%#x -> EACCES mode=%#o", p, flag, n.Mode)
		return nil, &PathError{Op: "open", Path: name, Err: syscall.EACCES}
	}
	if flag&O_TRUNC != 0 && wantW {
		n.Data = nil
		n.Mtime = simNow
	}
	logf("open %s flag=%#x -> ok size=%d", p, flag, len(n.Data))
	return &File{name: name, p: p, n: n, flag: flag}, nil
}

func Open(name string) (*File, error) { return OpenFile(name, O_RDONLY, 0) }

// CreateTemp / MkdirTemp: the "random" part of the name is a per-process counter, so that a
// history replays; an existing name is skipped like the real functions do.
func tempName(dir, pattern string) string {
	if dir == "" {
		dir = TempDir()
	}
	pre, suf := pattern, ""
	if i := strings.LastIndex(pattern, "*"); i >= 0 {
		pre, suf = pattern[:i], pattern[i+1:]
	}
	for {
		tmpSeq++
		p := path.Join(dir, fmt.Sprintf("%s%09d%s", pre, tmpSeq, suf))
		if _, ok := disk[norm(p)]; !ok {
			return p
		}
	}
}

func CreateTemp(dir, pattern string) (*File, error) {
	Load()
	return OpenFile(tempName(dir, pattern), O_RDWR|O_CREATE|O_EXCL, 0o600)
}

func MkdirTemp(dir, pattern string) (string, error) {
	Load()
	p := tempName(dir, pattern)
	if err := Mkdir(p, 0o700); err != nil {
		return "", err
	}
	return p, nil
}

func Create(name string) (*File, error) {
	return OpenFile(name, O_RDWR|O_CREATE|O_TRUNC, 0o666)
}

func (f *File) Name() string { return f.name }

func (f *File) check(op string) error {
	if f == nil {
		return ErrInvalid
	}
	if f.closed {
		return &PathError{Op: op, Path: f.name, Err: fs.ErrClosed}
	}
	return nil
}

func (f *File) Write(b []byte) (int, error) {
	if err := f.check("write"); err != nil {
		return 0, err
	}
	acc := f.flag & (O_RDONLY | O_WRONLY | O_RDWR)
	if acc == O_RDONLY {
		return 0, &PathError{Op: "write", Path: f.name, Err: syscall.EBADF}
	}
	if f.flag&O_APPEND != 0 {
		f.off = int64(len(f.n.Data))
	}
	k := len(b)
	var ferr error
	crashWrite := false
	if ft := fault("write", f.p); ft != nil {
		crashWrite = ft.Err == "CRASH"
		if ft.After < k {
			k = ft.After
		}
		if k < 0 {
			k = 0
		}
		ferr = &PathError{Op: "write", Path: f.name, Err: errno(ft.Err)}
	}
	end := f.off + int64(k)
	if int64(len(f.n.Data)) < end {
		nd := make([]byte, end)
		copy(nd, f.n.Data)
		f.n.Data = nd
	}
	copy(f.n.Data[f.off:end], b[:k])
	f.n.Mtime = simNow
	logf("write %s off=%d len=%d wrote=%d err=%v", f.p, f.off, len(b), k, ferr)
	f.off = end
	if crashWrite {
		crash()
	}
	if ferr != nil {
		return k, ferr
	}
	return k, nil
}

func (f *File) WriteString(s string) (int, error) { return f.Write([]byte(s)) }

func (f *File) WriteAt(b []byte, off int64) (int, error) {
	old := f.off
	f.off = off
	n, err := f.Write(b)
	f.off = old
	return n, err
}

func (f *File) Read(b []byte) (int, error) {
	if err := f.check("read"); err != nil {
		return 0, err
	}
	if ft := fault("read", f.p); ft != nil && ft.Err != "SHORT" {
		return 0, &PathError{Op: "read", Path: f.name, Err: errno(ft.Err)}
	}
	if f.off >= int64(len(f.n.Data)) {
		return 0, io.EOF
	}
	n := copy(b, f.n.Data[f.off:])
	f.off += int64(n)
	return n, nil
}

func (f *File) Seek(offset int64, whence int) (int64, error) {
	if err := f.check("seek"); err != nil {
		return 0, err
	}
	switch whence {
	case io.SeekStart:
		f.off = offset
	case io.SeekCurrent:
		f.off += offset
	case io.SeekEnd:
		f.off = int64(len(f.n.Data)) + offset
	}
	if f.off < 0 {
		f.off = 0
		return 0, &PathError{Op: "seek", Path: f.name, Err: syscall.EINVAL}
	}
	return f.off, nil
}

func (f *File) Truncate(size int64) error {
	if err := f.check("truncate"); err != nil {
		return err
	}
	if ft := fault("truncate", f.p); ft != nil {
		return &PathError{Op: "truncate", Path: f.name, Err: errno(ft.Err)}
	}
	acc := f.flag & (O_RDONLY | O_WRONLY | O_RDWR)
	if acc == O_RDONLY {
		return &PathError{Op: "truncate", Path: f.name, Err: syscall.EINVAL}
	}
	nd := make([]byte, size)
	copy(nd, f.n.Data)
	f.n.Data = nd
	logf("truncate %s size=%d", f.p, size)
	return nil
}

func (f *File) Sync() error {
	if err := f.check("sync"); err != nil {
		return err
	}
	if ft := fault("sync", f.p); ft != nil {
		return &PathError{Op: "sync", Path: f.name, Err: errno(ft.Err)}
	}
	f.n.Durable = append([]byte(nil), f.n.Data...)
	f.n.HasDur = true
	logf("sync %s size=%d", f.p, len(f.n.Data))
	return nil
}

func (f *File) Close() error {
	if err := f.check("close"); err != nil {
		return err
	}
	f.closed = true
	if ft := fault("close", f.p); ft != nil {
		return &PathError{Op: "close", Path: f.name, Err: errno(ft.Err)}
	}
	logf("close %s", f.p)
	return nil
}

func (f *File) Stat() (FileInfo, error) {
	if err := f.check("stat"); err != nil {
		return nil, err
	}
	return fileInfo{path.Base(f.p), f.n}, nil
}

func (f *File) Chmod(mode FileMode) error { f.n.Mode = uint32(mode & 0o777); return nil }
func (f *File) Fd() uintptr               { return ^uintptr(0) }

func (f *File) ReadFrom(r io.Reader) (int64, error) {
	b, err := io.ReadAll(r)
	if err != nil {
		return 0, err
	}
	n, err := f.Write(b)
	return int64(n), err
}

// ReadFile: open, read everything (in one simulated read), close.
func ReadFile(name string) ([]byte, error) {
	Load()
	p := norm(name)
	f, err := OpenFile(name, O_RDONLY, 0)
	if err != nil {
		return nil, err
	}
	defer f.Close()
	if f.n.Dir {
		return nil, &PathError{Op: "read", Path: name, Err: syscall.EISDIR}
	}
	if ft := fault("read", p); ft != nil {
		if ft.Err == "SHORT" {
			k := ft.After
			if k > len(f.n.Data) {
				k = len(f.n.Data)
			}
			logf("readfile %s -> SHORT %d of %d", p, k, len(f.n.Data))
			return append([]byte(nil), f.n.Data[:k]...), nil
		}
		return nil, &PathError{Op: "read", Path: name, Err: errno(ft.Err)}
	}
	logf("readfile %s -> %d bytes", p, len(f.n.Data))
	return append([]byte(nil), f.n.Data...), nil
}

func WriteFile(name string, data []byte, perm FileMode) error {
	f, err := OpenFile(name, O_WRONLY|O_CREATE|O_TRUNC, perm)
	if err != nil {
		return err
	}
	_, err = f.Write(data)
	if err1 := f.Close(); err1 != nil && err == nil {
		err = err1
	}
	return err
}

func Remove(name string) error {
	Load()
	p := norm(name)
	if _, ok := disk[p]; !ok {
		return &PathError{Op: "remove", Path: name, Err: syscall.ENOENT}
	}
	if disk[path.Dir(p)].Mode&0o200 == 0 {
		return &PathError{Op: "remove", Path: name, Err: syscall.EACCES}
	}
	delete(disk, p)
	logf("remove %s", p)
	return nil
}

func RemoveAll(name string) error {
	Load()
	p := norm(name)
	for k := range disk {
		if k == p || strings.HasPrefix(k, p+"/") {
			delete(disk, k)
		}
	}
	return nil
}

func Rename(oldname, newname string) error {
	Load()
	o, n := norm(oldname), norm(newname)
	if ft := fault("rename", o); ft != nil {
		return &PathError{Op: "rename", Path: oldname, Err: errno(ft.Err)}
	}
	nd, ok := disk[o]
	if !ok {
		return &PathError{Op: "rename", Path: oldname, Err: syscall.ENOENT}
	}
	if err := parentOK(n); err != nil {
		return &PathError{Op: "rename", Path: newname, Err: err}
	}
	if ex, ok := disk[n]; ok && ex.Dir {
		return &PathError{Op: "rename", Path: newname, Err: syscall.EISDIR}
	}
	disk[n] = nd
	delete(disk, o)
	logf("rename %s -> %s", o, n)
	return nil
}

func Truncate(name string, size int64) error {
	f, err := OpenFile(name, O_WRONLY, 0)
	if err != nil {
		return err
	}
	defer f.Close()
	return f.Truncate(size)
}

func Mkdir(name string, perm FileMode) error {
	Load()
	p := norm(name)
	if _, ok := disk[p]; ok {
		return &PathError{Op: "mkdir", Path: name, Err: syscall.EEXIST}
	}
	if err := parentOK(p); err != nil {
		return &PathError{Op: "mkdir", Path: name, Err: err}
	}
	disk[p] = &node{Dir: true, Mode: uint32(perm & 0o777)}
	return nil
}

func MkdirAll(name string, perm FileMode) error {
	Load()
	p := norm(name)
	parts := strings.Split(strings.TrimPrefix(p, "/"), "/")
	cur := ""
	for _, s := range parts {
		cur += "/" + s
		if n, ok := disk[cur]; ok {
			if !n.Dir {
				return &PathError{Op: "mkdir", Path: cur, Err: syscall.ENOTDIR}
			}
			continue
		}
		disk[cur] = &node{Dir: true, Mode: uint32(perm & 0o777)}
	}
	return nil
}

func Chmod(name string, mode FileMode) error {
	Load()
	n, ok := disk[norm(name)]
	if !ok {
		return &PathError{Op: "chmod", Path: name, Err: syscall.ENOENT}
	}
	n.Mode = uint32(mode & 0o777)
	return nil
}

func ReadDir(name string) ([]DirEntry, error) {
	Load()
	p := norm(name)
	n, ok := disk[p]
	if !ok || !n.Dir {
		return nil, &PathError{Op: "readdir", Path: name, Err: syscall.ENOENT}
	}
	var names []string
	for k := range disk {
		if path.Dir(k) == p && k != p {
			names = append(names, k)
		}
	}
	sort.Strings(names)
	var out []DirEntry
	for _, k := range names {
		out = append(out, fs.FileInfoToDirEntry(fileInfo{path.Base(k), disk[k]}))
	}
	return out, nil
}

// RawRead gives the reference computation the stored bytes without faults and without logging.
func RawRead(name string) ([]byte, bool) {
	Load()
	n, ok := disk[norm(name)]
	if !ok || n.Dir {
		return nil, false
	}
	return n.Data, true
}
