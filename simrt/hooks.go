// Package simrt is injected into a scratch copy of amf-custom-validator by /verif/check.
// It is the seam between the (rewritten) library and the simulator: every hook is nil
// unless a driver installs it, so the instrumented code behaves like the original when no
// simulation runs.
package simrt

import (
	"fmt"
	"sort"
	"sync"
	"time"
)

// Hooks. They are installed before any task goroutine is started and never changed while
// tasks run, so reading them needs no synchronisation.
var (
	YieldHook    func(site string)
	HotHook      func(site, v string)
	MapOrderHook func(site string, n int) []int
	FailHook     func(site string) error
	GateHook     func(site, kind string)
	NowHook      func() time.Time
	TornHook     func(site string) bool
	SelectHook   func(site string, n int) []int
	NoYield      int // >0: Yield/Hot are passed through (inside once.Do)
)

func Yield(site string) {
	if h := YieldHook; h != nil {
		h(site)
	}
}

func Hot(site, v string) {
	if h := HotHook; h != nil {
		h(site, v)
	}
}

func Gate(site, kind string) {
	if h := GateHook; h != nil {
		h(site, kind)
	}
}

// SelectOrder returns the order in which the communication cases of a select are polled before the
// select itself runs (R7b). Without a hook: declaration order.
func SelectOrder(site string, n int) []int {
	if h := SelectHook; h != nil {
		if o := h(site, n); len(o) == n {
			return o
		}
	}
	o := make([]int, n)
	for i := range o {
		o[i] = i
	}
	return o
}

func Now() time.Time {
	if h := NowHook; h != nil {
		return h()
	}
	return time.Now()
}

func Torn(site string) bool {
	if h := TornHook; h != nil {
		return h(site)
	}
	return false
}

// FailPoint overwrites *err with an injected error when the simulator says so.
func FailPoint(site string, err *error) {
	if h := FailHook; h != nil {
		if e := h(site); e != nil {
			*err = e
		}
	}
}

func FailPointTrue(site string, err *error) bool {
	FailPoint(site, err)
	return true
}

// InjectedError is what a fired failpoint puts into the error variable.
type InjectedError struct{ Site string }

func (e *InjectedError) Error() string { return "simrt: injected failure at " + e.Site }

// KV is one entry of a map range under simulator control.
type KV[K comparable, V any] struct {
	K K
	m map[K]V
}

// Get returns the current value; ok is false when the entry was deleted since the range
// started (Go does not produce such entries either).
func (kv KV[K, V]) Get() (V, bool) {
	v, ok := kv.m[kv.K]
	return v, ok
}

// MapRange returns the keys of m in canonical (sorted) order, then permuted by the
// simulator. Without a hook the canonical order is used: the instrumented code is then
// deterministic where the original is Go-random, which is a legal schedule of the original.
func MapRange[M ~map[K]V, K comparable, V any](m M, site string) []KV[K, V] {
	keys := make([]K, 0, len(m))
	for k := range m {
		keys = append(keys, k)
	}
	sortKeys(keys)
	if h := MapOrderHook; h != nil && len(keys) > 1 {
		if perm := h(site, len(keys)); perm != nil {
			p := make([]K, len(keys))
			for i, j := range perm {
				p[i] = keys[j]
			}
			keys = p
		}
	}
	out := make([]KV[K, V], len(keys))
	for i, k := range keys {
		out[i] = KV[K, V]{K: k, m: m}
	}
	return out
}

func sortKeys[K comparable](keys []K) {
	if ks, ok := any(keys).([]string); ok {
		sort.Strings(ks)
		return
	}
	if ks, ok := any(keys).([]int); ok {
		sort.Ints(ks)
		return
	}
	sort.Slice(keys, func(i, j int) bool { return fmt.Sprint(keys[i]) < fmt.Sprint(keys[j]) })
}

type locker interface {
	TryLock() bool
	Lock()
}

// BlockedHook is called while a task waits for a library lock held by another task.
var BlockedHook func()

// Lock acquires m without ever blocking while holding the simulator's baton.
func Lock(m locker) {
	if BlockedHook == nil {
		m.Lock()
		return
	}
	for !m.TryLock() {
		BlockedHook()
	}
}

func RLock(m *sync.RWMutex) {
	if BlockedHook == nil {
		m.RLock()
		return
	}
	for !m.TryRLock() {
		BlockedHook()
	}
}

// OnceDo runs once.Do(f) with yields disabled: other tasks would otherwise wait inside Do
// for a task that cannot run.
func OnceDo(o *sync.Once, f func()) {
	if YieldHook == nil && HotHook == nil {
		o.Do(f)
		return
	}
	o.Do(func() {
		noYieldAdd(1)
		defer noYieldAdd(-1)
		f()
	})
}
