// Package simioutil replaces io/ioutil in the CLI under test (engine C).
package simioutil

import (
	"io"

	"github.com/aml-org/amf-custom-validator/simrt/simos"
)

var Discard = io.Discard

func ReadFile(name string) ([]byte, error) { return simos.ReadFile(name) }
func WriteFile(name string, data []byte, perm simos.FileMode) error {
	return simos.WriteFile(name, data, perm)
}
func ReadAll(r io.Reader) ([]byte, error) { return io.ReadAll(r) }
func NopCloser(r io.Reader) io.ReadCloser { return io.NopCloser(r) }

func TempFile(dir, pattern string) (*simos.File, error) { return simos.CreateTemp(dir, pattern) }
func TempDir(dir, pattern string) (string, error)      { return simos.MkdirTemp(dir, pattern) }
