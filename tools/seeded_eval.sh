#!/bin/bash
# seeded_eval.sh <patch.diff> <PROP> [tier]  - apply a seeded change to /repo, run the owning check, undo.
# Prints the check's VIOLATION / KNOWN-FINDING lines and exit status. Never leaves /repo modified.
set -u
PATCH=$1; PROP=$2; TIER=${3:-quick}
cd /repo || exit 2
if [ -n "$(git status --porcelain)" ]; then echo "/repo is not clean"; exit 2; fi
git apply "$PATCH" || { echo "patch does not apply"; exit 2; }
cd /verif
START=$(date +%s)
VERIF_EVIDENCE_DIR=/verif/out/mutant-evidence ./check "$PROP" "$TIER" > /tmp/seeded_eval.$$.log 2>&1
RC=$?
END=$(date +%s)
cd /repo && git apply -R "$PATCH"; git checkout -- . ; git status --porcelain
grep -E "^(VIOLATION|KNOWN-FINDING)|HARNESS ERROR|^\[verif\]   " /tmp/seeded_eval.$$.log | cut -c1-400
echo "check=$PROP tier=$TIER rc=$RC wall=$((END-START))s"
rm -f /tmp/seeded_eval.$$.log
