#!/bin/bash
# seeded_eval.sh <patch.diff> <PROP> [tier]  - run the owning check against a scratch worktree of /repo with
# the seeded change applied (VERIF_REPO), so that /repo itself is never modified and other runs are not disturbed.
set -u
PATCH=$(readlink -f "$1"); PROP=$2; TIER=${3:-quick}
WT=$(mktemp -d /tmp/verif-seeded-XXXXXX); rmdir "$WT"
git -C /repo worktree add --detach "$WT" HEAD -q || exit 2
git -C "$WT" apply "$PATCH" || { echo "patch does not apply"; git -C /repo worktree remove --force "$WT"; exit 2; }
cd /verif
START=$(date +%s)
VERIF_REPO="$WT" VERIF_EVIDENCE_DIR=/verif/out/mutant-evidence ./check "$PROP" "$TIER" > /tmp/seeded_eval.$$.log 2>&1
RC=$?
END=$(date +%s)
git -C /repo worktree remove --force "$WT"; git -C /repo worktree prune
grep -E "^(VIOLATION|KNOWN-FINDING)|HARNESS ERROR|^\[verif\]   " /tmp/seeded_eval.$$.log | cut -c1-400
echo "check=$PROP tier=$TIER rc=$RC wall=$((END-START))s"
rm -f /tmp/seeded_eval.$$.log
