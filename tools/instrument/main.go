// instrument rewrites a scratch copy of amf-custom-validator so that every source of
// nondeterminism the claimed properties depend on goes through a hook in package simrt.
// It never touches /repo: the orchestrator hands it a throw-away copy.
//
// Rewrites (see DESIGN.md §2.1):
//
//	R1  simrt.Yield(site) at the entry of every function / method / func literal
//	R1b simrt.Hot(site, var) before every statement that touches a package-level variable
//	R2  `for k, v := range m` (m a map) -> iterate simrt.MapRange(m, site)
//	R3  simrt.FailPoint(site, &err) after assignments to error variables (pkg, internal/validator)
//	R4  cmd/**: "os" -> simrt/simos, "io/ioutil" -> simrt/simioutil, main -> simMain
//	R5  X++ / X-- / X op= e rooted at a package-level variable -> optional torn read-modify-write
//	R7  simrt.Gate(site, kind) before send / receive / close / select / channel range
//	R8  time.Now -> simrt.Now
//	R9  mutex Lock/RLock -> yielding try-lock loop; once.Do -> no-yield section
package main

import (
	"bytes"
	"encoding/json"
	"flag"
	"fmt"
	"go/ast"
	"go/constant"
	"go/format"
	"go/token"
	"go/types"
	"os"
	"path/filepath"
	"sort"
	"strconv"
	"strings"

	"golang.org/x/tools/go/packages"
)

const simrtPath = "github.com/aml-org/amf-custom-validator/simrt"
const modPath = "github.com/aml-org/amf-custom-validator"

type census struct {
	Files        int            `json:"files"`
	Sites        map[string]int `json:"sites"`
	FailSites    []string       `json:"fail_sites"`
	HotVars      map[string]int `json:"hot_vars"`
	MapSites     []string       `json:"map_sites"`
	GateSites    []string       `json:"gate_sites"`
	GoStmts      []string       `json:"go_stmts"`
	Selects      []string       `json:"selects"`
	SyncMapRange []string       `json:"sync_map_range"`
	Skipped      []string       `json:"skipped"`
	EventTypes   []string       `json:"event_types"`
	Operations   [][2]string    `json:"operations"`
}

var cs = census{Sites: map[string]int{}, HotVars: map[string]int{}}

type fileCtx struct {
	pkg       *packages.Package
	file      *ast.File
	rel       string
	fset      *token.FileSet
	info      *types.Info
	needSimrt bool
	failOK    bool // R3 applies
	isCmd     bool
	isPeg     bool
	gateFns   bool // R1 yields in this package act as gates in engine B (recorded only)
}

func (c *fileCtx) site(p token.Pos) string {
	pos := c.fset.Position(p)
	return c.rel + ":" + strconv.Itoa(pos.Line)
}

func lit(s string) *ast.BasicLit {
	return &ast.BasicLit{Kind: token.STRING, Value: strconv.Quote(s)}
}

func simCall(fn string, args ...ast.Expr) *ast.CallExpr {
	return &ast.CallExpr{Fun: &ast.SelectorExpr{X: ast.NewIdent("simrt"), Sel: ast.NewIdent(fn)}, Args: args}
}

func simStmt(fn string, args ...ast.Expr) ast.Stmt {
	return &ast.ExprStmt{X: simCall(fn, args...)}
}

func main() {
	dir := flag.String("dir", "", "scratch copy of the repository (rewritten in place)")
	out := flag.String("census", "", "where to write the instrumentation census (json)")
	flag.Parse()
	if *dir == "" {
		fmt.Fprintln(os.Stderr, "usage: instrument -dir <scratch> [-census file]")
		os.Exit(2)
	}
	abs, _ := filepath.Abs(*dir)
	cfg := &packages.Config{
		Mode: packages.NeedName | packages.NeedFiles | packages.NeedSyntax | packages.NeedTypes |
			packages.NeedTypesInfo | packages.NeedImports | packages.NeedCompiledGoFiles,
		Dir:   abs,
		Tests: false,
		Env:   append(os.Environ(), "GOFLAGS=-mod=mod", "GOPROXY=off", "GOSUMDB=off"),
	}
	pkgs, err := packages.Load(cfg, "./internal/...", "./pkg/...", "./cmd/...")
	if err != nil {
		fmt.Fprintln(os.Stderr, "instrument: load:", err)
		os.Exit(2)
	}
	bad := false
	for _, p := range pkgs {
		for _, e := range p.Errors {
			fmt.Fprintln(os.Stderr, "instrument: package error:", e)
			bad = true
		}
	}
	if bad {
		os.Exit(2)
	}
	sort.Slice(pkgs, func(i, j int) bool { return pkgs[i].PkgPath < pkgs[j].PkgPath })
	for _, p := range pkgs {
		if !strings.HasPrefix(p.PkgPath, modPath) || strings.HasPrefix(p.PkgPath, simrtPath) {
			continue
		}
		if p.PkgPath == modPath+"/pkg/events" {
			collectConsts(p, "EventType", &cs.EventTypes)
		}
		if p.PkgPath == modPath+"/pkg/milestones" {
			var names []string
			collectConsts(p, "Operation", &names)
			for _, n := range names {
				c := p.Types.Scope().Lookup(n).(*types.Const)
				cs.Operations = append(cs.Operations, [2]string{n, constant.StringVal(c.Val())})
			}
		}
		for i, f := range p.Syntax {
			name := p.CompiledGoFiles[i]
			rel, _ := filepath.Rel(abs, name)
			if strings.HasSuffix(name, "_test.go") || strings.HasPrefix(filepath.Base(name), "zz_sim") {
				continue
			}
			c := &fileCtx{pkg: p, file: f, rel: rel, fset: p.Fset, info: p.TypesInfo}
			c.failOK = p.PkgPath == modPath+"/pkg" || p.PkgPath == modPath+"/internal/validator"
			c.isCmd = strings.HasPrefix(p.PkgPath, modPath+"/cmd")
			c.isPeg = filepath.Base(name) == "peg.go"
			c.rewriteFile()
			var buf bytes.Buffer
			if err := format.Node(&buf, p.Fset, f); err != nil {
				fmt.Fprintln(os.Stderr, "instrument: print", rel, err)
				os.Exit(2)
			}
			if err := os.WriteFile(name, buf.Bytes(), 0o644); err != nil {
				fmt.Fprintln(os.Stderr, "instrument: write", rel, err)
				os.Exit(2)
			}
			cs.Files++
		}
	}
	sort.Strings(cs.FailSites)
	sort.Strings(cs.MapSites)
	sort.Strings(cs.GateSites)
	if *out != "" {
		b, _ := json.MarshalIndent(cs, "", " ")
		os.WriteFile(*out, b, 0o644)
	}
}

// collectConsts lists the constants of a named type in declaration order (value order).
func collectConsts(p *packages.Package, typeName string, dst *[]string) {
	type kv struct {
		name string
		pos  token.Pos
	}
	var all []kv
	scope := p.Types.Scope()
	for _, n := range scope.Names() {
		if c, ok := scope.Lookup(n).(*types.Const); ok {
			if named, ok := c.Type().(*types.Named); ok && named.Obj().Name() == typeName {
				all = append(all, kv{n, c.Pos()})
			}
		}
	}
	sort.Slice(all, func(i, j int) bool { return all[i].pos < all[j].pos })
	for _, k := range all {
		*dst = append(*dst, k.name)
	}
}

func (c *fileCtx) rewriteFile() {
	f := c.file
	// keep only the comments in front of the package clause (build constraints, licence);
	// inserted nodes carry no positions and would otherwise attract stray comments
	var keep []*ast.CommentGroup
	for _, g := range f.Comments {
		if g.End() < f.Package {
			keep = append(keep, g)
		}
	}
	f.Comments = keep
	f.Doc = nil
	for _, d := range f.Decls {
		switch d := d.(type) {
		case *ast.FuncDecl:
			d.Doc = nil
			if d.Body == nil {
				continue
			}
			c.rewriteFuncBody(d.Body, d.Pos(), d.Name.Name)
			if c.isCmd && d.Recv == nil && d.Name.Name == "main" && c.pkg.Name == "main" {
				d.Name.Name = "simMain"
				cs.Sites["R4_main"]++
			}
		case *ast.GenDecl:
			d.Doc = nil
			// func literals in package-level initialisers
			ast.Inspect(d, func(n ast.Node) bool {
				if fl, ok := n.(*ast.FuncLit); ok {
					c.rewriteFuncBody(fl.Body, fl.Pos(), "lit")
					return false
				}
				return true
			})
		}
	}
	if c.isCmd {
		c.redirectImports()
	}
	if c.needSimrt {
		c.addImport("simrt", simrtPath)
	}
	// keep "time" used even when every time.Now was rewritten
	for _, im := range f.Imports {
		if im.Path.Value == `"time"` && im.Name == nil {
			f.Decls = append(f.Decls, &ast.GenDecl{Tok: token.VAR, Specs: []ast.Spec{&ast.ValueSpec{
				Names: []*ast.Ident{ast.NewIdent("_")},
				Type:  &ast.SelectorExpr{X: ast.NewIdent("time"), Sel: ast.NewIdent("Time")},
			}}})
		}
	}
}

func (c *fileCtx) addImport(name, path string) {
	spec := &ast.ImportSpec{Name: ast.NewIdent(name), Path: lit(path)}
	decl := &ast.GenDecl{Tok: token.IMPORT, Specs: []ast.Spec{spec}}
	// imports must come first
	c.file.Decls = append([]ast.Decl{decl}, c.file.Decls...)
	c.file.Imports = append(c.file.Imports, spec)
}

func (c *fileCtx) redirectImports() {
	for _, im := range c.file.Imports {
		switch im.Path.Value {
		case `"os"`:
			im.Path.Value = strconv.Quote(simrtPath + "/simos")
			if im.Name == nil {
				im.Name = ast.NewIdent("os")
			}
			cs.Sites["R4_os"]++
		case `"io/ioutil"`:
			im.Path.Value = strconv.Quote(simrtPath + "/simioutil")
			if im.Name == nil {
				im.Name = ast.NewIdent("ioutil")
			}
			cs.Sites["R4_ioutil"]++
		}
	}
}

func (c *fileCtx) rewriteFuncBody(body *ast.BlockStmt, pos token.Pos, name string) {
	body.List = c.rewriteList(body.List)
	if !c.isPeg {
		c.needSimrt = true
		cs.Sites["R1_yield"]++
		y := simStmt("Yield", lit(c.site(pos)))
		body.List = append([]ast.Stmt{y}, body.List...)
	}
}

// rewriteList rewrites one statement list; nested lists are handled recursively.
func (c *fileCtx) rewriteList(list []ast.Stmt) []ast.Stmt {
	var out []ast.Stmt
	for _, s := range list {
		pre, repl, post := c.rewriteStmt(s)
		out = append(out, pre...)
		out = append(out, repl)
		out = append(out, post...)
	}
	return out
}

func (c *fileCtx) rewriteBlock(b *ast.BlockStmt) {
	if b != nil {
		b.List = c.rewriteList(b.List)
	}
}

// rewriteStmt returns statements to put before s, the (possibly replaced) statement, and
// statements to put after it.
func (c *fileCtx) rewriteStmt(s ast.Stmt) (pre []ast.Stmt, repl ast.Stmt, post []ast.Stmt) {
	repl = s
	// 1. nested statement lists and function literals
	switch st := s.(type) {
	case *ast.BlockStmt:
		c.rewriteBlock(st)
	case *ast.IfStmt:
		c.rewriteIf(st)
	case *ast.ForStmt:
		c.rewriteBlock(st.Body)
	case *ast.RangeStmt:
		c.rewriteBlock(st.Body)
	case *ast.SwitchStmt:
		c.rewriteClauses(st.Body)
	case *ast.TypeSwitchStmt:
		c.rewriteClauses(st.Body)
	case *ast.SelectStmt:
		c.rewriteClauses(st.Body)
		cs.Selects = append(cs.Selects, c.site(st.Pos()))
	case *ast.LabeledStmt:
		p, r, q := c.rewriteStmt(st.Stmt)
		// keep the label on the statement itself; hooks go before the label / after it
		st.Stmt = r
		return p, st, q
	case *ast.GoStmt:
		cs.GoStmts = append(cs.GoStmts, c.site(st.Pos()))
	}
	c.rewriteFuncLitsShallow(s)

	if c.isPeg {
		// generated parser: only map ranges are rewritten
		if rs, ok := s.(*ast.RangeStmt); ok {
			repl = c.rewriteRange(rs, &pre)
		}
		return
	}

	// 2. R8 time.Now, R9 locks (expression-level, anywhere in the shallow part)
	c.rewriteCallsShallow(s)

	// 3. R7 gates
	pre = append(pre, c.gatesFor(s)...)

	// 4. R1b hot sites
	for _, v := range c.packageVarsShallow(s) {
		c.needSimrt = true
		cs.Sites["R1b_hot"]++
		cs.HotVars[v]++
		pre = append(pre, simStmt("Hot", lit(c.site(s.Pos())), lit(v)))
	}

	// 5. statement-level rewrites
	switch st := s.(type) {
	case *ast.RangeStmt:
		repl = c.rewriteRange(st, &pre)
	case *ast.SelectStmt:
		repl = c.rewriteSelect(st)
	case *ast.IncDecStmt:
		if r := c.tornRMW(st.X, st.Tok, nil, st.Pos()); r != nil {
			repl = r
		}
	case *ast.AssignStmt:
		if len(st.Lhs) == 1 && len(st.Rhs) == 1 && st.Tok != token.ASSIGN && st.Tok != token.DEFINE {
			if r := c.tornRMW(st.Lhs[0], st.Tok, st.Rhs[0], st.Pos()); r != nil {
				repl = r
			}
		}
		if c.failOK {
			if e := c.errLHS(st); e != nil {
				site := c.site(st.Pos())
				c.needSimrt = true
				cs.Sites["R3_fail"]++
				cs.FailSites = append(cs.FailSites, site)
				post = append(post, simStmt("FailPoint", lit(site), &ast.UnaryExpr{Op: token.AND, X: ast.NewIdent(e.Name)}))
			}
		}
	}
	return
}

func (c *fileCtx) rewriteIf(st *ast.IfStmt) {
	c.rewriteBlock(st.Body)
	switch e := st.Else.(type) {
	case *ast.BlockStmt:
		c.rewriteBlock(e)
	case *ast.IfStmt:
		c.rewriteIf(e)
		c.rewriteFuncLitsShallow(e)
	}
	if c.failOK && !c.isPeg {
		if as, ok := st.Init.(*ast.AssignStmt); ok {
			if e := c.errLHS(as); e != nil {
				site := c.site(as.Pos())
				c.needSimrt = true
				cs.Sites["R3_fail"]++
				cs.FailSites = append(cs.FailSites, site)
				st.Cond = &ast.BinaryExpr{
					X:  simCall("FailPointTrue", lit(site), &ast.UnaryExpr{Op: token.AND, X: ast.NewIdent(e.Name)}),
					Op: token.LAND,
					Y:  &ast.ParenExpr{X: st.Cond},
				}
			}
		}
	}
}

func (c *fileCtx) rewriteClauses(b *ast.BlockStmt) {
	if b == nil {
		return
	}
	for _, cl := range b.List {
		switch cl := cl.(type) {
		case *ast.CaseClause:
			cl.Body = c.rewriteList(cl.Body)
		case *ast.CommClause:
			cl.Body = c.rewriteList(cl.Body)
		}
	}
}

// shallow visits the parts of s that execute as part of s itself, not nested statement lists
// and not the bodies of function literals.
func shallow(s ast.Node, fn func(ast.Node) bool) {
	first := true
	ast.Inspect(s, func(n ast.Node) bool {
		if n == nil {
			return false
		}
		if first {
			first = false
			return fn(n) || true
		}
		switch n.(type) {
		case *ast.BlockStmt, *ast.FuncLit:
			return false
		}
		return fn(n)
	})
}

func (c *fileCtx) rewriteFuncLitsShallow(s ast.Stmt) {
	first := true
	ast.Inspect(s, func(n ast.Node) bool {
		if n == nil {
			return false
		}
		if first {
			first = false
			if _, ok := n.(*ast.BlockStmt); ok {
				return false // already handled as a nested list
			}
			return true
		}
		switch n := n.(type) {
		case *ast.BlockStmt:
			return false
		case *ast.FuncLit:
			c.rewriteFuncBody(n.Body, n.Pos(), "lit")
			return false
		}
		return true
	})
}

func (c *fileCtx) isPkgFunc(e ast.Expr, pkg, name string) bool {
	sel, ok := e.(*ast.SelectorExpr)
	if !ok || sel.Sel.Name != name {
		return false
	}
	id, ok := sel.X.(*ast.Ident)
	if !ok {
		return false
	}
	pn, ok := c.info.Uses[id].(*types.PkgName)
	return ok && pn.Imported().Path() == pkg
}

func (c *fileCtx) rewriteCallsShallow(s ast.Stmt) {
	shallow(s, func(n ast.Node) bool {
		call, ok := n.(*ast.CallExpr)
		if !ok {
			return true
		}
		if c.isPkgFunc(call.Fun, "time", "Now") && len(call.Args) == 0 {
			call.Fun = &ast.SelectorExpr{X: ast.NewIdent("simrt"), Sel: ast.NewIdent("Now")}
			c.needSimrt = true
			cs.Sites["R8_now"]++
			return true
		}
		sel, ok := call.Fun.(*ast.SelectorExpr)
		if !ok {
			return true
		}
		selInfo, ok := c.info.Selections[sel]
		if !ok || selInfo.Kind() != types.MethodVal {
			return true
		}
		fn, ok := selInfo.Obj().(*types.Func)
		if !ok || fn.Pkg() == nil || fn.Pkg().Path() != "sync" {
			return true
		}
		recvT := fn.Type().(*types.Signature).Recv().Type()
		recvName := ""
		if p, ok := recvT.(*types.Pointer); ok {
			if nm, ok := p.Elem().(*types.Named); ok {
				recvName = nm.Obj().Name()
			}
		}
		addr := func() ast.Expr {
			if _, isPtr := c.info.TypeOf(sel.X).Underlying().(*types.Pointer); isPtr {
				return sel.X
			}
			return &ast.UnaryExpr{Op: token.AND, X: sel.X}
		}
		switch {
		case (recvName == "Mutex" || recvName == "RWMutex") && fn.Name() == "Lock" && len(call.Args) == 0:
			call.Fun = &ast.SelectorExpr{X: ast.NewIdent("simrt"), Sel: ast.NewIdent("Lock")}
			call.Args = []ast.Expr{addr()}
			c.needSimrt = true
			cs.Sites["R9_lock"]++
		case recvName == "RWMutex" && fn.Name() == "RLock" && len(call.Args) == 0:
			call.Fun = &ast.SelectorExpr{X: ast.NewIdent("simrt"), Sel: ast.NewIdent("RLock")}
			call.Args = []ast.Expr{addr()}
			c.needSimrt = true
			cs.Sites["R9_lock"]++
		case recvName == "Once" && fn.Name() == "Do" && len(call.Args) == 1:
			call.Fun = &ast.SelectorExpr{X: ast.NewIdent("simrt"), Sel: ast.NewIdent("OnceDo")}
			call.Args = []ast.Expr{addr(), call.Args[0]}
			c.needSimrt = true
			cs.Sites["R9_once"]++
		case recvName == "Map" && fn.Name() == "Range":
			cs.SyncMapRange = append(cs.SyncMapRange, c.site(call.Pos()))
		}
		return true
	})
}

func (c *fileCtx) gatesFor(s ast.Stmt) []ast.Stmt {
	var out []ast.Stmt
	add := func(pos token.Pos, kind string) {
		site := c.site(pos)
		c.needSimrt = true
		cs.Sites["R7_gate"]++
		cs.GateSites = append(cs.GateSites, site+" "+kind)
		out = append(out, simStmt("Gate", lit(site), lit(kind)))
	}
	switch st := s.(type) {
	case *ast.SendStmt:
		add(st.Pos(), "send")
	case *ast.SelectStmt:
		add(st.Pos(), "select")
		return out
	case *ast.RangeStmt:
		// channel ranges are rewritten into explicit receive loops (gate inside)
	}
	shallow(s, func(n ast.Node) bool {
		switch e := n.(type) {
		case *ast.UnaryExpr:
			if e.Op == token.ARROW {
				add(e.Pos(), "recv")
			}
		case *ast.CallExpr:
			if id, ok := e.Fun.(*ast.Ident); ok && id.Name == "close" {
				if _, isBuiltin := c.info.Uses[id].(*types.Builtin); isBuiltin {
					add(e.Pos(), "close")
				}
			}
		}
		return true
	})
	return out
}

// packageVarsShallow lists package-level variables of this module that s touches.
func (c *fileCtx) packageVarsShallow(s ast.Stmt) []string {
	seen := map[string]bool{}
	var out []string
	shallow(s, func(n ast.Node) bool {
		id, ok := n.(*ast.Ident)
		if !ok {
			return true
		}
		v, ok := c.info.Uses[id].(*types.Var)
		if !ok || v.IsField() || v.Pkg() == nil {
			return true
		}
		if !strings.HasPrefix(v.Pkg().Path(), modPath) || strings.HasPrefix(v.Pkg().Path(), simrtPath) {
			return true
		}
		if v.Parent() != v.Pkg().Scope() {
			return true
		}
		name := strings.TrimPrefix(v.Pkg().Path(), modPath+"/") + "." + v.Name()
		if !seen[name] {
			seen[name] = true
			out = append(out, name)
		}
		return true
	})
	return out
}

func (c *fileCtx) rootedAtPackageVar(e ast.Expr) bool {
	for {
		switch x := e.(type) {
		case *ast.Ident:
			v, ok := c.info.Uses[x].(*types.Var)
			return ok && !v.IsField() && v.Pkg() != nil && v.Parent() == v.Pkg().Scope() &&
				strings.HasPrefix(v.Pkg().Path(), modPath)
		case *ast.SelectorExpr:
			if id, ok := x.X.(*ast.Ident); ok {
				if _, isPkg := c.info.Uses[id].(*types.PkgName); isPkg {
					e = x.Sel
					continue
				}
			}
			e = x.X
		case *ast.ParenExpr:
			e = x.X
		case *ast.StarExpr:
			e = x.X
		default:
			return false
		}
	}
}

// tornRMW rewrites `X++`, `X--`, `X op= e` on package-level state into
//
//	if simrt.Torn(site) { t := X; simrt.Yield(site); X = t op e } else { X op= e }
func (c *fileCtx) tornRMW(x ast.Expr, tok token.Token, rhs ast.Expr, pos token.Pos) ast.Stmt {
	if !c.rootedAtPackageVar(x) {
		return nil
	}
	var op token.Token
	var operand ast.Expr
	var orig ast.Stmt
	switch tok {
	case token.INC:
		op, operand = token.ADD, &ast.BasicLit{Kind: token.INT, Value: "1"}
		orig = &ast.IncDecStmt{X: x, Tok: tok}
	case token.DEC:
		op, operand = token.SUB, &ast.BasicLit{Kind: token.INT, Value: "1"}
		orig = &ast.IncDecStmt{X: x, Tok: tok}
	case token.ADD_ASSIGN:
		op, operand = token.ADD, rhs
	case token.SUB_ASSIGN:
		op, operand = token.SUB, rhs
	default:
		return nil
	}
	if orig == nil {
		orig = &ast.AssignStmt{Lhs: []ast.Expr{x}, Tok: tok, Rhs: []ast.Expr{rhs}}
	}
	if t := c.info.TypeOf(x); t != nil {
		if b, ok := t.Underlying().(*types.Basic); !ok || b.Info()&types.IsNumeric == 0 {
			return nil
		}
	}
	site := c.site(pos)
	c.needSimrt = true
	cs.Sites["R5_rmw"]++
	tmp := ast.NewIdent("simTmp")
	return &ast.IfStmt{
		Cond: simCall("Torn", lit(site)),
		Body: &ast.BlockStmt{List: []ast.Stmt{
			&ast.AssignStmt{Lhs: []ast.Expr{tmp}, Tok: token.DEFINE, Rhs: []ast.Expr{x}},
			simStmt("Yield", lit(site+"#rmw")),
			&ast.AssignStmt{Lhs: []ast.Expr{x}, Tok: token.ASSIGN, Rhs: []ast.Expr{&ast.BinaryExpr{X: tmp, Op: op, Y: operand}}},
		}},
		Else: &ast.BlockStmt{List: []ast.Stmt{orig}},
	}
}

var errType = types.Universe.Lookup("error").Type()

func (c *fileCtx) errLHS(as *ast.AssignStmt) *ast.Ident {
	if as.Tok != token.ASSIGN && as.Tok != token.DEFINE {
		return nil
	}
	for _, l := range as.Lhs {
		id, ok := l.(*ast.Ident)
		if !ok || id.Name == "_" {
			continue
		}
		var t types.Type
		if obj := c.info.Defs[id]; obj != nil {
			t = obj.Type()
		} else if obj := c.info.Uses[id]; obj != nil {
			t = obj.Type()
		}
		if t != nil && types.Identical(t, errType) {
			return id
		}
	}
	return nil
}

// rewriteRange handles map ranges (R2) and channel ranges (R7).
func (c *fileCtx) rewriteRange(rs *ast.RangeStmt, pre *[]ast.Stmt) ast.Stmt {
	t := c.info.TypeOf(rs.X)
	if t == nil {
		return rs
	}
	site := c.site(rs.Pos())
	switch t.Underlying().(type) {
	case *types.Map:
		c.needSimrt = true
		cs.Sites["R2_map"]++
		cs.MapSites = append(cs.MapSites, site)
		kv := ast.NewIdent("simKV")
		var prologue []ast.Stmt
		blank := func(e ast.Expr) bool {
			if e == nil {
				return true
			}
			id, ok := e.(*ast.Ident)
			return ok && id.Name == "_"
		}
		live := &ast.CallExpr{Fun: &ast.SelectorExpr{X: kv, Sel: ast.NewIdent("Get")}}
		okId := ast.NewIdent("simOk")
		valTmp := ast.NewIdent("simV")
		prologue = append(prologue,
			&ast.AssignStmt{Lhs: []ast.Expr{valTmp, okId}, Tok: token.DEFINE, Rhs: []ast.Expr{live}},
			&ast.IfStmt{Cond: &ast.UnaryExpr{Op: token.NOT, X: okId}, Body: &ast.BlockStmt{List: []ast.Stmt{&ast.BranchStmt{Tok: token.CONTINUE}}}},
			&ast.AssignStmt{Lhs: []ast.Expr{ast.NewIdent("_")}, Tok: token.ASSIGN, Rhs: []ast.Expr{valTmp}},
		)
		if !blank(rs.Key) {
			prologue = append(prologue, &ast.AssignStmt{Lhs: []ast.Expr{rs.Key}, Tok: rs.Tok, Rhs: []ast.Expr{&ast.SelectorExpr{X: kv, Sel: ast.NewIdent("K")}}})
		}
		if !blank(rs.Value) {
			prologue = append(prologue, &ast.AssignStmt{Lhs: []ast.Expr{rs.Value}, Tok: rs.Tok, Rhs: []ast.Expr{valTmp}})
		}
		rs.Body.List = append(prologue, rs.Body.List...)
		rs.Key = ast.NewIdent("_")
		rs.Value = kv
		rs.Tok = token.DEFINE
		rs.X = simCall("MapRange", rs.X, lit(site))
		return rs
	case *types.Chan:
		c.needSimrt = true
		cs.Sites["R7_gate"]++
		cs.GateSites = append(cs.GateSites, site+" range")
		okId := ast.NewIdent("simOk")
		var key ast.Expr = ast.NewIdent("_")
		if rs.Key != nil {
			key = rs.Key
		}
		var head []ast.Stmt
		head = append(head, simStmt("Gate", lit(site), lit("recv")))
		recv := &ast.UnaryExpr{Op: token.ARROW, X: rs.X}
		if rs.Tok == token.ASSIGN {
			head = append(head,
				&ast.DeclStmt{Decl: &ast.GenDecl{Tok: token.VAR, Specs: []ast.Spec{&ast.ValueSpec{Names: []*ast.Ident{okId}, Type: ast.NewIdent("bool")}}}},
				&ast.AssignStmt{Lhs: []ast.Expr{key, okId}, Tok: token.ASSIGN, Rhs: []ast.Expr{recv}})
		} else {
			head = append(head, &ast.AssignStmt{Lhs: []ast.Expr{key, okId}, Tok: token.DEFINE, Rhs: []ast.Expr{recv}})
		}
		head = append(head, &ast.IfStmt{Cond: &ast.UnaryExpr{Op: token.NOT, X: okId}, Body: &ast.BlockStmt{List: []ast.Stmt{&ast.BranchStmt{Tok: token.BREAK}}}})
		return &ast.ForStmt{Body: &ast.BlockStmt{List: append(head, rs.Body.List...)}}
	}
	return rs
}

// rewriteSelect (R7b) makes the choice among several READY cases a simulator decision: the
// communication cases are first polled one by one, non-blocking, in the order simrt.SelectOrder
// returns; only when none is ready does the original select run (and block, or take its default).
// Polling in some order and taking the first ready case is one of the executions Go allows.
// The case bodies are shared between the polled copy and the original; statements with labels
// inside a body would be defined twice, so such selects are left alone.
func (c *fileCtx) rewriteSelect(st *ast.SelectStmt) ast.Stmt {
	var comm []*ast.CommClause
	for _, cl := range st.Body.List {
		cc := cl.(*ast.CommClause)
		if cc.Comm != nil {
			comm = append(comm, cc)
		}
	}
	if len(comm) < 2 {
		return st
	}
	hasLabel := false
	ast.Inspect(st, func(n ast.Node) bool {
		if _, ok := n.(*ast.LabeledStmt); ok {
			hasLabel = true
		}
		return true
	})
	if hasLabel {
		cs.Skipped = append(cs.Skipped, c.site(st.Pos())+" select with labels")
		return st
	}
	// Go evaluates the channel and value expressions of a select exactly once; polling would evaluate
	// them again, so only selects whose communication expressions are free of calls are rewritten
	for _, cc := range comm {
		pure := true
		ast.Inspect(cc.Comm, func(n ast.Node) bool {
			switch n.(type) {
			case *ast.CallExpr, *ast.FuncLit:
				pure = false
			}
			return pure
		})
		if !pure {
			cs.Skipped = append(cs.Skipped, c.site(st.Pos())+" select with a call in a communication clause")
			return st
		}
	}
	site := c.site(st.Pos())
	c.needSimrt = true
	cs.Sites["R7b_select"]++
	ord := ast.NewIdent("simOrd")
	done := ast.NewIdent("simDone")
	n := len(comm)
	var stmts []ast.Stmt
	stmts = append(stmts,
		&ast.AssignStmt{Lhs: []ast.Expr{ord}, Tok: token.DEFINE, Rhs: []ast.Expr{simCall("SelectOrder", lit(site), &ast.BasicLit{Kind: token.INT, Value: strconv.Itoa(n)})}},
		&ast.AssignStmt{Lhs: []ast.Expr{done}, Tok: token.DEFINE, Rhs: []ast.Expr{ast.NewIdent("false")}},
	)
	for pos := 0; pos < n; pos++ {
		var cases []ast.Stmt
		for i, cc := range comm {
			body := append([]ast.Stmt{&ast.AssignStmt{Lhs: []ast.Expr{done}, Tok: token.ASSIGN, Rhs: []ast.Expr{ast.NewIdent("true")}}}, cc.Body...)
			poll := &ast.SelectStmt{Body: &ast.BlockStmt{List: []ast.Stmt{
				&ast.CommClause{Comm: cc.Comm, Body: body},
				&ast.CommClause{Comm: nil},
			}}}
			cases = append(cases, &ast.CaseClause{List: []ast.Expr{&ast.BasicLit{Kind: token.INT, Value: strconv.Itoa(i)}}, Body: []ast.Stmt{poll}})
		}
		sw := &ast.SwitchStmt{Tag: &ast.IndexExpr{X: ord, Index: &ast.BasicLit{Kind: token.INT, Value: strconv.Itoa(pos)}}, Body: &ast.BlockStmt{List: cases}}
		stmts = append(stmts, &ast.IfStmt{Cond: &ast.UnaryExpr{Op: token.NOT, X: done}, Body: &ast.BlockStmt{List: []ast.Stmt{sw}}})
	}
	stmts = append(stmts, &ast.IfStmt{Cond: &ast.UnaryExpr{Op: token.NOT, X: done}, Body: &ast.BlockStmt{List: []ast.Stmt{st}}})
	if selectTerminates(st) {
		// the original select was a terminating statement (every case returns): keep the block terminating
		stmts = append(stmts, &ast.ExprStmt{X: &ast.CallExpr{Fun: ast.NewIdent("panic"), Args: []ast.Expr{lit("simrt: unreachable")}}})
	}
	return &ast.BlockStmt{List: stmts}
}

// selectTerminates: every clause ends in return / panic / goto and nothing breaks out of the select.
func selectTerminates(st *ast.SelectStmt) bool {
	for _, cl := range st.Body.List {
		cc := cl.(*ast.CommClause)
		if len(cc.Body) == 0 {
			return false
		}
		switch last := cc.Body[len(cc.Body)-1].(type) {
		case *ast.ReturnStmt:
		case *ast.BranchStmt:
			if last.Tok != token.GOTO {
				return false
			}
		case *ast.ExprStmt:
			call, ok := last.X.(*ast.CallExpr)
			if !ok {
				return false
			}
			if id, ok := call.Fun.(*ast.Ident); !ok || id.Name != "panic" {
				return false
			}
		default:
			return false
		}
	}
	hasBreak := false
	ast.Inspect(st.Body, func(n ast.Node) bool {
		switch x := n.(type) {
		case *ast.ForStmt, *ast.RangeStmt, *ast.SwitchStmt, *ast.TypeSwitchStmt, *ast.FuncLit:
			return false
		case *ast.SelectStmt:
			return x == st
		case *ast.BranchStmt:
			if x.Tok == token.BREAK {
				hasBreak = true
			}
		}
		return true
	})
	return !hasBreak
}
