#!/bin/bash
# seed_sweep.sh <first> <last> [checks...] - run the quick checks with several VERIF_SEED values on the current tree
# (evidence goes to out/sweep-evidence so that the committed evidence is not replaced).
F=$1; L=$2; shift 2; CHECKS=${@:-C04 C06 C09 C10 C11 C18}
cd /verif
for s in $(seq $F $L); do for c in $CHECKS; do
  t0=$(date +%s); VERIF_SEED=$s VERIF_EVIDENCE_DIR=/verif/out/sweep-evidence ./check $c quick > /tmp/sweep.$$.log 2>&1; rc=$?
  echo "seed=$s check=$c rc=$rc wall=$(( $(date +%s)-t0 ))s $(grep -E '^VIOLATION|HARNESS ERROR' /tmp/sweep.$$.log | head -2 | cut -c1-200)"
done; done
rm -f /tmp/sweep.$$.log
