// Engine B: the real entry points, real channels and the real GenerateMilestonesFromEvents
// inside one testing/synctest bubble per run. Goroutines park at simrt.Gate (inserted before
// every channel operation of repo code) and at the driver's own gates; the scheduler waits for
// quiescence (synctest.Wait), advances the fake clock by a seeded amount and releases ONE
// parked goroutine chosen by the PRNG. "Nobody parked, not everybody finished" is a deadlock
// seen at quiescence, without any real-time timeout.
package simbubble

import (
	"bufio"
	"encoding/json"
	"fmt"
	"os"
	"sort"
	"strings"
	"sync"
	"testing"
	"testing/synctest"
	"time"

	"github.com/aml-org/amf-custom-validator/pkg"
	"github.com/aml-org/amf-custom-validator/pkg/config"
	"github.com/aml-org/amf-custom-validator/pkg/events"
	"github.com/aml-org/amf-custom-validator/pkg/milestones"
	"github.com/aml-org/amf-custom-validator/simrt"
	"github.com/open-policy-agent/opa/rego"
)

type Failure struct {
	ID       string `json:"id"`
	Kind     string `json:"kind"`              // none | input | failpoint
	Profile  string `json:"profile,omitempty"` // text replacing the base profile
	Data     string `json:"data,omitempty"`    // text replacing the base data
	HasData  bool   `json:"has_data,omitempty"`
	Site     string `json:"site,omitempty"`
	MayPanic bool   `json:"may_panic,omitempty"`
}

type Job struct {
	Seed       uint64      `json:"seed"`
	K          int         `json:"k"`
	Shard      int         `json:"shard"`
	NShard     int         `json:"nshard"`
	Profile    string      `json:"profile"`
	Data       string      `json:"data"`
	Entries    []string    `json:"entries"`
	Failures   []Failure   `json:"failures"`
	Caps       []int       `json:"caps"`
	Consumers  []string    `json:"consumers"`
	EventNames []string    `json:"event_names"`
	Operations [][2]string `json:"operations"` // (constant name, value)
	Out        string      `json:"out"`
	SkipUntil  int         `json:"skip_until,omitempty"` // resume a shard after the cell whose run killed the process
	Replay     *Cell       `json:"replay,omitempty"`
	// ReplayUntil: re-execute the cells of one shard in order up to (and including) index Idx and
	// emit only the last one: state a defect keeps at process level makes a run depend on the
	// cells executed before it in the same process
	ReplayUntil *struct {
		Idx int `json:"idx"`
	} `json:"replay_until,omitempty"`
}

// Cell is one simulated run.
type Cell struct {
	Entry    string  `json:"entry"`
	Failure  Failure `json:"failure"`
	Cap      int     `json:"cap"`
	Consumer string  `json:"consumer"`
	MCap     int     `json:"mcap"`
	Seed     uint64  `json:"seed"`
	Choices  []int   `json:"choices,omitempty"` // replay: index of the released goroutine at each step
	Dts      []int64 `json:"dts,omitempty"`     // replay: clock advance (ns) at each step
	Sels     [][]int `json:"sels,omitempty"`    // replay: polling order of each rewritten select, in execution order
}

type Result struct {
	Cell             Cell           `json:"cell"`
	Events           []string       `json:"events"`
	Times            []int64        `json:"times"`
	Closed           bool           `json:"closed"`
	Returned         []string       `json:"returned"` // per call: "ok" | "err" | "panic:<text>"
	Milestones       []MS           `json:"milestones,omitempty"`
	MClosed          bool           `json:"mclosed"`
	Steps            int            `json:"steps"`
	SimNs            int64          `json:"sim_ns"`
	Deadlock         string         `json:"deadlock,omitempty"`
	Choices          []int          `json:"choices"`
	Dts              []int64        `json:"dts"`
	Sels             [][]int        `json:"sels"`
	FailFired        bool           `json:"fail_fired"`
	Probes           map[string]int `json:"probes,omitempty"`
	OpenAfterCompile bool           `json:"open_after_compile,omitempty"`
	Harness          string         `json:"harness,omitempty"`
	Trace            []string       `json:"trace,omitempty"`
	Idx              int            `json:"idx"`
	Shard            int            `json:"shard"`
	NShard           int            `json:"nshard"`
}

type MS struct {
	Op      string `json:"op"`
	Dur     int64  `json:"dur"`
	StartNs int64  `json:"start"`
}

type parked struct {
	seq  int
	site string
	kind string
	ch   chan struct{}
}

type sched struct {
	mu     sync.Mutex
	parked []*parked
	seq    int
	rng    uint64
	off    bool // pass-through (cleanup phase)
}

func (s *sched) next() uint64 {
	s.rng += 0x9e3779b97f4a7c15
	z := s.rng
	z = (z ^ (z >> 30)) * 0xbf58476d1ce4e5b9
	z = (z ^ (z >> 27)) * 0x94d049bb133111eb
	return z ^ (z >> 31)
}

func (s *sched) gate(site, kind string) {
	s.mu.Lock()
	if s.off {
		s.mu.Unlock()
		return
	}
	s.seq++
	p := &parked{seq: s.seq, site: site, kind: kind, ch: make(chan struct{})}
	s.parked = append(s.parked, p)
	s.mu.Unlock()
	<-p.ch // durably blocked until the scheduler releases this goroutine
}

type cfgT struct{}

func (cfgT) ReportCreationTime() time.Time { return simrt.Now() }

func TestBubble(t *testing.T) {
	jobFile := os.Getenv("SIM_JOB")
	if jobFile == "" {
		t.Skip("no SIM_JOB")
	}
	b, err := os.ReadFile(jobFile)
	if err != nil {
		t.Fatal(err)
	}
	var job Job
	if err := json.Unmarshal(b, &job); err != nil {
		t.Fatal(err)
	}
	f, err := os.Create(job.Out)
	if err != nil {
		t.Fatal(err)
	}
	defer f.Close()
	w := bufio.NewWriterSize(f, 1<<20)
	defer w.Flush()
	emit := func(r *Result) {
		b, _ := json.Marshal(r)
		w.Write(b)
		w.WriteByte('\n')
	}
	started := func(idx int, c Cell) {
		b, _ := json.Marshal(map[string]any{"started": idx, "cell": c})
		w.Write(b)
		w.WriteByte('\n')
		w.Flush()
	}
	if job.Replay != nil {
		started(0, *job.Replay)
		emit(runCell(t, &job, *job.Replay))
		return
	}
	idx := 0
	for _, entry := range job.Entries {
		for _, fl := range job.Failures {
			for _, cp := range job.Caps {
				for _, cons := range job.Consumers {
					for k := 0; k < job.K; k++ {
						idx++
						if idx%job.NShard != job.Shard {
							continue
						}
						seed := job.Seed*1000003 + uint64(idx)*7919 + uint64(k)
						mcap := 0
						if seed%2 == 1 {
							mcap = 8
						}
						if idx <= job.SkipUntil {
							continue
						}
						started(idx, Cell{Entry: entry, Failure: fl, Cap: cp, Consumer: cons, MCap: mcap, Seed: seed})
						r := runCell(t, &job, Cell{Entry: entry, Failure: fl, Cap: cp, Consumer: cons, MCap: mcap, Seed: seed})
						r.Idx, r.Shard, r.NShard = idx, job.Shard, job.NShard
						if job.ReplayUntil != nil {
							if idx == job.ReplayUntil.Idx {
								emit(r)
								return
							}
							continue
						}
						emit(r)
					}
				}
			}
		}
	}
	fmt.Fprintf(w, "{\"shard_done\":%d}\n", job.Shard)
}

func runCell(t *testing.T, job *Job, cell Cell) (res *Result) {
	res = &Result{Cell: cell, Probes: map[string]int{}}
	defer func() {
		// synctest panics when the bubble ends with goroutines still blocked; the scheduler
		// cleans up before that, this is only the backstop
		if r := recover(); r != nil {
			res.Harness = fmt.Sprint(r)
		}
	}()
	synctest.Test(t, func(t *testing.T) { bubble(job, cell, res) })
	return res
}

func bubble(job *Job, cell Cell, res *Result) {
	s := &sched{rng: cell.Seed}
	simrt.GateHook = s.gate
	selN := 0
	simrt.SelectHook = func(site string, n int) []int {
		s.mu.Lock()
		defer s.mu.Unlock()
		selN++
		var o []int
		if cell.Choices != nil {
			if selN-1 < len(cell.Sels) && len(cell.Sels[selN-1]) == n {
				o = cell.Sels[selN-1]
			}
		} else {
			o = make([]int, n)
			for i := range o {
				o[i] = i
			}
			for i := n - 1; i > 0; i-- {
				j := int(s.next() % uint64(i+1))
				o[i], o[j] = o[j], o[i]
			}
		}
		if o == nil {
			o = make([]int, n)
			for i := range o {
				o[i] = i
			}
		}
		res.Sels = append(res.Sels, o)
		return o
	}
	defer func() { simrt.GateHook = nil; simrt.FailHook = nil; simrt.SelectHook = nil }()
	failSeen := map[string]int{}
	var failMu sync.Mutex
	if cell.Failure.Kind == "failpoint" {
		simrt.FailHook = func(site string) error {
			failMu.Lock()
			defer failMu.Unlock()
			failSeen[site]++
			if site == cell.Failure.Site && failSeen[site] == 1 {
				res.FailFired = true
				return &simrt.InjectedError{Site: site}
			}
			return nil
		}
	}
	profile, data := job.Profile, job.Data
	if cell.Failure.Kind == "input" {
		if cell.Failure.Profile != "" {
			profile = cell.Failure.Profile
		}
		if cell.Failure.HasData {
			data = cell.Failure.Data
		}
	}
	t0 := time.Now()
	// "Again:<entry>" / "AgainAfterFailedCompile:<entry>": an earlier call went through the SAME channel
	// variable (a long-lived field of the caller that gets a fresh channel per run); the run that is
	// observed is the second one
	entry := cell.Entry
	ch := make(chan events.Event, 64)
	if strings.HasPrefix(entry, "Again:") || strings.HasPrefix(entry, "AgainAfterFailedCompile:") {
		s.off = true
		func() {
			defer func() { recover() }()
			if strings.HasPrefix(entry, "Again:") {
				pkg.Validate(job.Profile, job.Data, false, &ch)
			} else {
				pkg.CompileProfile("profile: [unclosed\n", false, &ch)
			}
		}()
		s.off = false
		entry = entry[strings.Index(entry, ":")+1:]
	}
	ch = make(chan events.Event, cell.Cap)
	var mu sync.Mutex
	done := map[string]bool{}
	finish := func(name string) { mu.Lock(); done[name] = true; mu.Unlock() }
	actors := []string{"validator", "consumer"}

	name := func(e events.EventType) string {
		if int(e) >= 0 && int(e) < len(job.EventNames) {
			return job.EventNames[int(e)]
		}
		return fmt.Sprintf("Event(%d)", int(e))
	}
	frozen := false // set before cleanup: what happens while the bubble is torn down is not an observation
	record := func(ev events.Event) {
		mu.Lock()
		if frozen {
			mu.Unlock()
			return
		}
		res.Events = append(res.Events, name(ev.EventType))
		res.Times = append(res.Times, ev.Time.Sub(t0).Nanoseconds())
		mu.Unlock()
	}

	// ---- consumer side
	switch cell.Consumer {
	case "eager":
		go func() {
			defer finish("consumer")
			for ev := range ch {
				record(ev)
			}
			mu.Lock()
			if !frozen {
				res.Closed = true
			}
			mu.Unlock()
		}()
	case "lagging":
		go func() {
			defer finish("consumer")
			for {
				s.gate("driver/consumer", "recv")
				ev, ok := <-ch
				if !ok {
					mu.Lock()
					if !frozen {
						res.Closed = true
					}
					mu.Unlock()
					return
				}
				record(ev)
			}
		}()
	case "milestones":
		// tee: record what the library sent, forward to the real milestone generator
		ch2 := make(chan events.Event, cell.Cap)
		mch := make(chan milestones.Milestone, cell.MCap)
		actors = append(actors, "milestones", "mreader")
		go func() {
			defer finish("consumer")
			for ev := range ch {
				record(ev)
				ch2 <- ev
			}
			mu.Lock()
			if !frozen {
				res.Closed = true
			}
			mu.Unlock()
			close(ch2)
		}()
		go func() {
			defer finish("milestones")
			milestones.GenerateMilestonesFromEvents(&ch2, &mch)
		}()
		go func() {
			defer finish("mreader")
			for {
				s.gate("driver/mreader", "recv")
				m, ok := <-mch
				if !ok {
					mu.Lock()
					if !frozen {
						res.MClosed = true
					}
					mu.Unlock()
					return
				}
				mu.Lock()
				if frozen {
					mu.Unlock()
					continue
				}
				res.Milestones = append(res.Milestones, MS{Op: string(m.Operation), Dur: int64(m.Duration), StartNs: m.Start.Sub(t0).Nanoseconds()})
				mu.Unlock()
			}
		}()
	}

	// ---- validator side
	call := func(f func() error) {
		out := "ok"
		func() {
			defer func() {
				if r := recover(); r != nil {
					out = "panic:" + fmt.Sprint(r)
				}
			}()
			if err := f(); err != nil {
				out = "err"
			}
		}()
		mu.Lock()
		if !frozen {
			res.Returned = append(res.Returned, out)
		}
		mu.Unlock()
	}
	go func() {
		defer finish("validator")
		switch entry {
		case "Validate":
			call(func() error { _, err := pkg.Validate(profile, data, false, &ch); return err })
		case "ValidateWithConfiguration":
			call(func() error {
				_, err := pkg.ValidateWithConfiguration(profile, data, false, &ch, cfgT{}, config.DefaultReportConfiguration())
				return err
			})
		case "CompileProfile":
			call(func() error { _, err := pkg.CompileProfile(profile, false, &ch); return err })
		case "CompileProfile+ValidateCompiled", "CompileProfile+ValidateCompiledWithConfiguration":
			var h *rego.PreparedEvalQuery
			call(func() error { var err error; h, err = pkg.CompileProfile(profile, false, &ch); return err })
			mu.Lock()
			failed := res.Returned[0] != "ok"
			mu.Unlock()
			if failed || h == nil {
				return
			}
			// the channel must still be open here: probe it at a gate so that the scheduler sees a quiescent state
			s.gate("driver/between_calls", "probe")
			mu.Lock()
			res.OpenAfterCompile = !res.Closed
			mu.Unlock()
			if entry == "CompileProfile+ValidateCompiled" {
				call(func() error { _, err := pkg.ValidateCompiled(h, data, false, &ch); return err })
			} else {
				call(func() error {
					_, err := pkg.ValidateCompiledWithConfiguration(h, data, false, &ch, cfgT{}, config.DefaultReportConfiguration())
					return err
				})
			}
		}
	}()

	// ---- scheduler
	allDone := func() bool {
		mu.Lock()
		defer mu.Unlock()
		for _, a := range actors {
			if !done[a] {
				return false
			}
		}
		return true
	}
	const maxSteps = 4000
	for step := 0; ; step++ {
		synctest.Wait()
		if allDone() {
			break
		}
		s.mu.Lock()
		n := len(s.parked)
		s.mu.Unlock()
		if n == 0 || step >= maxSteps {
			// quiescent, nobody parked, somebody not finished: a deadlock
			mu.Lock()
			var blocked []string
			for _, a := range actors {
				if !done[a] {
					blocked = append(blocked, a)
				}
			}
			mu.Unlock()
			res.Deadlock = strings.Join(blocked, ",")
			if step >= maxSteps {
				res.Deadlock = "step budget exhausted: " + res.Deadlock
			}
			break
		}
		// advance the clock, then release one parked goroutine
		var dt int64
		var pick int
		if cell.Choices != nil {
			if step < len(cell.Choices) {
				pick = cell.Choices[step]
			}
			if step < len(cell.Dts) {
				dt = cell.Dts[step]
			}
			if pick >= n {
				pick = 0
			}
			if dt <= 0 {
				dt = 1
			}
		} else {
			r := s.next()
			switch r % 16 {
			case 0:
				dt = int64(time.Minute) * int64(1+s.next()%90)
			case 1, 2:
				dt = int64(time.Second) * int64(1+s.next()%50)
			default:
				dt = 1 + int64(s.next()%5000000)
			}
			pick = int(s.next() % uint64(n))
		}
		time.Sleep(time.Duration(dt))
		s.mu.Lock()
		// the order in which goroutines reached their gates since the last quiescent point is
		// real-time scheduling noise: order the parked set by (site, kind, arrival) before choosing
		sort.SliceStable(s.parked, func(i, j int) bool {
			a, b := s.parked[i], s.parked[j]
			if a.site != b.site {
				return a.site < b.site
			}
			if a.kind != b.kind {
				return a.kind < b.kind
			}
			return a.seq < b.seq
		})
		p := s.parked[pick]
		s.parked = append(s.parked[:pick], s.parked[pick+1:]...)
		if p.kind == "send" && len(ch) == cap(ch) {
			res.Probes["send_released_with_full_buffer"]++
		}
		if p.kind == "close" && len(ch) > 0 {
			res.Probes["close_with_events_still_buffered"]++
		}
		s.mu.Unlock()
		res.Choices = append(res.Choices, pick)
		res.Dts = append(res.Dts, dt)
		if os.Getenv("SIM_BUBBLE_TRACE") != "" {
			res.Trace = append(res.Trace, fmt.Sprintf("t=%d n=%d release %s/%s len(ch)=%d", time.Since(t0).Nanoseconds(), n, p.site, p.kind, len(ch)))
		}
		res.Steps++
		close(p.ch)
	}
	res.SimNs = time.Since(t0).Nanoseconds()
	mu.Lock()
	frozen = true
	mu.Unlock()

	// ---- cleanup: let every goroutine end so that the bubble can be left
	s.mu.Lock()
	s.off = true
	for _, p := range s.parked {
		close(p.ch)
	}
	s.parked = nil
	s.mu.Unlock()
	if !allDone() {
		func() {
			defer func() { recover() }()
			close(ch)
		}()
		// a producer blocked in send now panics (recovered in call); drain whatever is left
		for i := 0; i < 50 && !allDone(); i++ {
			synctest.Wait()
			select {
			case <-ch:
			default:
			}
		}
	}
	synctest.Wait()
}
