package main

// Process wrapper of the instrumented CLI ("simacv"). The instrumenter renames the CLI's
// func main to simMain; this main loads the simulated disk, installs the clock and map-order
// hooks from the environment, runs simMain, and flushes the disk image on every way out.
//
//	SIM_DISK / SIM_DISK_OUT  disk image in / out
//	SIM_NOW                  unix seconds returned by simrt.Now (default: real clock)
//	SIM_MAPSEED              seed of the map-iteration permutations (default: canonical order)
//
// The hidden sub-command `__ref` computes the reference: it reads the stored bytes directly
// and calls the library, with no CLI code in between.

import (
	"encoding/json"
	"fmt"
	realos "os"
	"strconv"
	"time"

	"github.com/aml-org/amf-custom-validator/internal/validator"
	"github.com/aml-org/amf-custom-validator/pkg"
	"github.com/aml-org/amf-custom-validator/simrt"
	"github.com/aml-org/amf-custom-validator/simrt/simos"
)

type refOut struct {
	Err    bool   `json:"err"`
	ErrTxt string `json:"err_txt,omitempty"`
	Panic  string `json:"panic,omitempty"`
	Out    string `json:"out"`
	Miss   string `json:"missing,omitempty"`
}

func main() {
	if v := realos.Getenv("SIM_NOW"); v != "" {
		sec, _ := strconv.ParseInt(v, 10, 64)
		t := time.Unix(sec, 0).UTC()
		simrt.NowHook = func() time.Time { return t }
	}
	if v := realos.Getenv("SIM_MAPSEED"); v != "" {
		s, _ := strconv.ParseUint(v, 10, 64)
		simrt.MapOrderHook = func(site string, n int) []int {
			perm := make([]int, n)
			for i := range perm {
				perm[i] = i
			}
			for i := n - 1; i > 0; i-- {
				s += 0x9e3779b97f4a7c15
				z := s
				z = (z ^ (z >> 30)) * 0xbf58476d1ce4e5b9
				z = (z ^ (z >> 27)) * 0x94d049bb133111eb
				z ^= z >> 31
				j := int(z % uint64(i+1))
				perm[i], perm[j] = perm[j], perm[i]
			}
			return perm
		}
	}
	if len(realos.Args) > 1 && realos.Args[1] == "__ref" {
		ref(realos.Args[2:])
		return
	}
	simos.Run(simMain)
	simos.Flush()
}

func ref(args []string) {
	simos.Load()
	var out refOut
	read := func(p string) string {
		b, ok := simos.RawRead(p)
		if !ok {
			out.Miss = p
		}
		return string(b)
	}
	func() {
		defer func() {
			if r := recover(); r != nil {
				out.Panic = fmt.Sprint(r)
			}
		}()
		var err error
		switch args[0] {
		case "validate":
			p, d := read(args[1]), read(args[2])
			if out.Miss != "" {
				return
			}
			out.Out, err = pkg.Validate(p, d, false, nil)
		case "generate":
			p := read(args[1])
			if out.Miss != "" {
				return
			}
			unit, e := validator.GenerateRego(p, false, nil)
			err = e
			if e == nil {
				out.Out = unit.Code
			}
		case "normalize":
			d := read(args[1])
			if out.Miss != "" {
				return
			}
			res, e := validator.ProcessInput(d, false, nil)
			err = e
			if e == nil {
				out.Out = validator.Encode(res)
			}
		default:
			out.Miss = "unknown ref command " + args[0]
		}
		if err != nil {
			out.Err = true
			out.ErrTxt = err.Error()
		}
	}()
	// the value goes on a marked line of its own: whatever library code printed to the real stdout on the way
	// (it is not part of what the library returns) must not be mistaken for it
	realos.Stdout.WriteString("\n@@SIMREF@@ ")
	json.NewEncoder(realos.Stdout).Encode(out)
}
