package main

import (
	"bufio"
	"encoding/json"
	"flag"
	"fmt"
	"os"
	"path/filepath"
	"sort"
	"strings"
	"time"

	"github.com/aml-org/amf-custom-validator/pkg"
	"github.com/aml-org/amf-custom-validator/pkg/events"
	"github.com/open-policy-agent/opa/rego"
)

// C04: a document made unreadable by a storage fault must get an error from every entry
// point, never a report. This is the direct-call half (library entry points); the CLI half
// runs the instrumented binary over the simulated disk (orchestrator).

var c04Entries = []string{"ValidateCompiled", "ValidateCompiledWithConfiguration", "Validate", "ValidateWithConfiguration",
	"ValidateCompiled+chan", "ValidateCompiledWithConfiguration+chan", "Validate+chan", "ValidateWithConfiguration+chan"}

type c04Violation struct {
	Profile string `json:"profile"`
	Data    string `json:"data"`
	Fault   string `json:"fault"`
	Entry   string `json:"entry"`
	Class   string `json:"class"` // report_for_unreadable | panic_for_unreadable | error_with_report
	Sig     string `json:"sig"`
	Reason  string `json:"reason"`
	Detail  string `json:"detail"`
	DocLen  int    `json:"doc_len"`
}

type c04Doc struct {
	Profile    string         `json:"profile"`
	Data       string         `json:"data"`
	Len        int            `json:"len"`
	Injected   map[string]int `json:"injected"`   // per fault kind
	Unreadable map[string]int `json:"unreadable"` // of those, how many made the document unreadable
	Absorbed   map[string]int `json:"absorbed"`   // still readable: nothing demanded
	Undecided  int            `json:"undecided"`
	Calls      int            `json:"calls"`
	Violations []c04Violation `json:"violations,omitempty"`
	NViol      int            `json:"n_violations"`
	Exhaustive bool           `json:"all_offsets"`
	Samples    []string       `json:"samples,omitempty"`
	FaultFree  string         `json:"fault_free"`
	Distinct   int            `json:"distinct_unreadable_texts"`
}

func faultKind(spec string) string {
	k := strings.SplitN(spec, ":", 2)[0]
	if k == "ld" {
		return "jsonld_rejected"
	}
	switch k {
	case "trunc":
		if spec == "trunc:0" {
			return "lost_write"
		}
		return "torn_write"
	case "flip":
		return "flipped_bit"
	case "file":
		return "misdirected_read"
	case "lit":
		return "literal_document"
	}
	return "wrong_encoding"
}

// callEntry invokes one public entry point on text and reports (err?, report, panic).
func callEntry(entry string, handle *rego.PreparedEvalQuery, ptxt, text string) (res Res) {
	withChan := strings.HasSuffix(entry, "+chan")
	name := strings.TrimSuffix(entry, "+chan")
	var ch *chan events.Event
	var chv chan events.Event
	if withChan {
		chv = make(chan events.Event, 64)
		ch = &chv
	}
	defer func() {
		if r := recover(); r != nil {
			res.Panic = fmt.Sprint(r)
		}
	}()
	var rep string
	var err error
	t := instant(baseInstant)
	switch name {
	case "ValidateCompiled":
		rep, err = pkg.ValidateCompiled(handle, text, false, ch)
	case "ValidateCompiledWithConfiguration":
		rep, err = pkg.ValidateCompiledWithConfiguration(handle, text, false, ch, simCfg{t}, reportCfg(0))
	case "Validate":
		rep, err = pkg.Validate(ptxt, text, false, ch)
	case "ValidateWithConfiguration":
		rep, err = pkg.ValidateWithConfiguration(ptxt, text, false, ch, simCfg{t}, reportCfg(0))
	}
	res.Report = rep
	if err != nil {
		res.Err = true
		res.ErrTxt = err.Error()
	}
	return
}

func judge(entry string, r Res) (string, string) {
	switch {
	case r.Panic != "":
		return "panic_for_unreadable", "panic: " + clip(r.Panic)
	case !r.Err && r.Report != "":
		d := "returned a report and no error"
		if strings.Contains(r.Report, "\"conforms\": true") {
			d += " (conforms: true)"
		}
		return "report_for_unreadable", d
	case !r.Err:
		return "report_for_unreadable", "returned no error (empty report)"
	case r.Report != "":
		return "error_with_report", "returned an error together with a report"
	}
	return "", ""
}

var c04Trace = os.Getenv("SIM_C04_TRACE") != ""

func c04Main(args []string) {
	fs := flag.NewFlagSet("c04", flag.ExitOnError)
	tier := fs.String("tier", "quick", "")
	corpusF := fs.String("corpus", "", "")
	seedF := fs.Uint64("seed", 1, "")
	shard := fs.Int("shard", 0, "")
	nshard := fs.Int("nshard", 1, "")
	replayF := fs.String("replay", "", "")
	cliDir := fs.String("clisamples", "", "directory to write faulted texts for the CLI half")
	emitF := fs.String("emit", "", "replay: also write the faulted text to this file")
	budget := fs.Int("budget", 0, "wall-clock budget in seconds for this shard (0 = none); documents are taken smallest first")
	fs.Parse(args)
	c, err := loadCorpus(*corpusF)
	if err != nil {
		fmt.Fprintln(os.Stderr, "corpus:", err)
		os.Exit(2)
	}
	w := bufio.NewWriterSize(os.Stdout, 1<<20)
	defer w.Flush()

	if *replayF != "" {
		var rf struct {
			Violation c04Violation `json:"violation"`
			PPath     string       `json:"profile_path"`
			DPath     string       `json:"data_path"`
		}
		b, err := os.ReadFile(*replayF)
		if err != nil || json.Unmarshal(b, &rf) != nil {
			fmt.Fprintln(os.Stderr, "replay: cannot read", *replayF)
			os.Exit(2)
		}
		pb, err1 := os.ReadFile(rf.PPath)
		db, err2 := os.ReadFile(rf.DPath)
		if err1 != nil || err2 != nil {
			fmt.Fprintln(os.Stderr, "replay: cannot read inputs", err1, err2)
			os.Exit(2)
		}
		text := applyFault(string(db), rf.Violation.Fault)
		if *emitF != "" {
			os.WriteFile(*emitF, []byte(text), 0o644)
		}
		bad, reason, _ := unreadable(text)
		out := map[string]any{"unreadable": bad, "reason": reason}
		if bad && *emitF == "" {
			h, cerr := pkg.CompileProfile(string(pb), false, nil)
			if cerr != nil {
				fmt.Fprintln(os.Stderr, "replay: profile does not compile")
				os.Exit(2)
			}
			r := callEntry(rf.Violation.Entry, h, string(pb), text)
			cls, det := judge(rf.Violation.Entry, r)
			out["class"], out["detail"] = cls, det
		}
		json.NewEncoder(w).Encode(out)
		return
	}

	// document selection: data documents of fixture profiles, smallest first
	type pd struct{ p, d int }
	var docs []pd
	for pi, pr := range c.Profiles {
		if pr.Class == "production" && *tier == "quick" {
			continue
		}
		for di, d := range pr.Data {
			if d.Size <= 256<<10 {
				docs = append(docs, pd{pi, di})
			}
		}
	}
	sort.SliceStable(docs, func(i, j int) bool {
		return c.Profiles[docs[i].p].Data[docs[i].d].Size < c.Profiles[docs[j].p].Data[docs[j].d].Size
	})
	r := &rng{*seedF}
	if *tier == "quick" {
		// the smallest document of every hand-written special profile (they exist because some defect needed
		// exactly that kind of profile or data), the 4 smallest fixture documents, and a seeded sample of the rest
		var pick []pd
		seenProf := map[int]bool{}
		for _, d := range docs {
			if c.Profiles[d.p].Class == "special" && !seenProf[d.p] && c.Profiles[d.p].Data[d.d].Size < 40000 {
				seenProf[d.p] = true
				pick = append(pick, d)
			}
		}
		nfix := 0
		var rest []pd
		for _, d := range docs {
			if c.Profiles[d.p].Class == "special" {
				continue
			}
			if nfix < 4 {
				pick = append(pick, d)
				nfix++
				continue
			}
			rest = append(rest, d)
		}
		for len(pick) < 36 && len(rest) > 0 {
			i := r.intn(len(rest))
			if c.Profiles[rest[i].p].Data[rest[i].d].Size < 40000 {
				pick = append(pick, rest[i])
			}
			rest = append(rest[:i], rest[i+1:]...)
		}
		sort.SliceStable(pick, func(i, j int) bool {
			return c.Profiles[pick[i].p].Data[pick[i].d].Size < c.Profiles[pick[j].p].Data[pick[j].d].Size
		})
		docs = pick
	}
	cliEmitted := 0
	tStart := time.Now()
	skipped := 0
	for idx, doc := range docs {
		if idx%*nshard != *shard {
			continue
		}
		if *budget > 0 && time.Since(tStart) > time.Duration(*budget)*time.Second {
			skipped++
			continue
		}
		pr := c.Profiles[doc.p]
		ptxt := c.profileText(doc.p)
		dtxt := c.dataText(doc.p, doc.d)
		dpath := c.dataPath(doc.p, doc.d)
		sum := c04Doc{Profile: pr.ID, Data: pr.Data[doc.d].Path, Len: len(dtxt), Injected: map[string]int{}, Unreadable: map[string]int{}, Absorbed: map[string]int{}}
		tc := time.Now()
		handle, cerr := pkg.CompileProfile(ptxt, false, nil)
		if cerr != nil {
			continue // profile fixtures that do not compile have no verdict to protect
		}
		// the text entry points compile the profile on every call: for profiles that are slow to compile
		// they are used on every 12th test only (the compiled entry points on all of them)
		slowProfile := time.Since(tc) > 200*time.Millisecond
		nTests := 0
		// fault-free run first: it must give the fixture's normal outcome (no error)
		ff := callEntry("ValidateCompiled", handle, ptxt, dtxt)
		sum.FaultFree = ff.key()
		dr := &rng{*seedF ^ uint64(idx)*0x9e3779b97f4a7c15}
		seen := map[string]bool{}
		sigCount := map[string]int{}

		test := func(spec string, entries []string) {
			text := applyFault(dtxt, spec)
			kind := faultKind(spec)
			sum.Injected[kind]++
			bad, reason, und := unreadable(text)
			if und && !strings.HasPrefix(reason, goldPanic) {
				sum.Undecided++ // e.g. a BOM in front of a readable document: either answer is acceptable
				return
			}
			if und {
				// json-gold itself panics on this value: it can neither be said to accept nor to reject it in an
				// orderly way. An error or a panic of the entry point are both tolerated here, but a VERDICT is
				// not: JSON-LD processing did not get through the document.
				sum.Undecided++
				for _, e := range entries {
					sum.Calls++
					res := callEntry(e, handle, ptxt, text)
					if !res.Err && res.Panic == "" {
						sum.NViol++
						sigCount["report_for_unprocessable:"+kind]++
						if sigCount["report_for_unprocessable:"+kind] <= 2 {
							sum.Violations = append(sum.Violations, c04Violation{Profile: pr.ID, Data: dpath, Fault: spec, Entry: e, Class: "report_for_unprocessable",
								Sig: "report_for_unprocessable:" + kind, Reason: "json-gold panics on this document", Detail: "returned a report and no error", DocLen: len(dtxt)})
						}
					}
				}
				return
			}
			if !bad {
				sum.Absorbed[kind]++
				return
			}
			sum.Unreadable[kind]++
			if !seen[text] {
				seen[text] = true
				sum.Distinct++
			}
			if len(sum.Samples) < 4 && dr.chance(5) {
				sum.Samples = append(sum.Samples, spec+" => "+clip(reason))
			}
			if *cliDir != "" && cliEmitted < 40 && (dr.chance(3) || kind != "torn_write") && dr.chance(40) {
				cliEmitted++
				name := fmt.Sprintf("s%d-%d-%d.txt", *shard, idx, cliEmitted)
				os.WriteFile(filepath.Join(*cliDir, name), []byte(text), 0o644)
				meta, _ := json.Marshal(map[string]any{"file": name, "profile_path": c.profilePath(doc.p), "profile": pr.ID, "data": pr.Data[doc.d].Path, "fault": spec, "reason": reason})
				f, _ := os.OpenFile(filepath.Join(*cliDir, fmt.Sprintf("index-%d.jsonl", *shard)), os.O_APPEND|os.O_CREATE|os.O_WRONLY, 0o644)
				f.Write(append(meta, '\n'))
				f.Close()
			}
			nTests++
			for _, e := range entries {
				if slowProfile && !strings.HasPrefix(e, "ValidateCompiled") && nTests%12 != 1 {
					continue
				}
				sum.Calls++
				if c04Trace {
					// only on the re-run of a shard whose process died: say what is about to be called
					tb, _ := json.Marshal(map[string]any{"profile": pr.ID, "data": dpath, "fault": spec, "entry": e, "kind": kind, "doc_len": len(dtxt), "reason": clip(reason)})
					fmt.Fprintf(os.Stderr, "C04TRACE %s\n", tb)
				}
				res := callEntry(e, handle, ptxt, text)
				if cls, det := judge(e, res); cls != "" {
					sum.NViol++
					sigCount[cls+":"+kind]++
					if sigCount[cls+":"+kind] <= 2 {
						sum.Violations = append(sum.Violations, c04Violation{Profile: pr.ID, Data: dpath, Fault: spec, Entry: e, Class: cls,
							Sig: cls + ":" + kind, Reason: clip(reason), Detail: det, DocLen: len(dtxt)})
					}
				}
			}
		}

		fast := c04Entries[:1]
		// torn writes: every crash point (exhaustive per document), all entry points on a sample
		full := len(dtxt) <= 20000 || (*tier == "thorough" && len(dtxt) <= 30000)
		sum.Exhaustive = full
		step := 1
		if !full {
			step = len(dtxt)/4000 + 1
		}
		nAll := 0
		for k := 0; k < len(dtxt); k += step {
			ents := fast
			if k == 0 || (dr.chance(2) && nAll < 48) || k >= len(dtxt)-3 {
				ents = c04Entries
				nAll++
			}
			test(fmt.Sprintf("trunc:%d", k), ents)
		}
		// flipped stored bits, biased to structural characters
		nflip := 120
		if *tier == "thorough" {
			nflip = 500
		}
		var structural []int
		for i := 0; i < len(dtxt); i++ {
			switch dtxt[i] {
			case '{', '}', '[', ']', '"', ':', ',', '@':
				structural = append(structural, i)
			}
		}
		for i := 0; i < nflip && len(dtxt) > 0; i++ {
			off := dr.intn(len(dtxt))
			if len(structural) > 0 && dr.chance(70) {
				off = structural[dr.intn(len(structural))]
			}
			ents := fast
			if dr.chance(10) {
				ents = c04Entries
			}
			test(fmt.Sprintf("flip:%d:%d", off, dr.intn(8)), ents)
		}
		for _, enc := range []string{"utf16le", "utf16be", "bom", "latin1"} {
			test(enc, c04Entries)
		}
		// misdirected reads: siblings of the document that are not JSON-LD
		dir := filepath.Dir(dpath)
		if ents, err := os.ReadDir(dir); err == nil {
			n := 0
			for _, e := range ents {
				ext := filepath.Ext(e.Name())
				if ext == ".raml" || ext == ".yaml" || ext == ".rego" || ext == ".ttl" || ext == ".txt" {
					test("file:"+filepath.Join(dir, e.Name()), c04Entries)
					n++
					if n >= 4 {
						break
					}
				}
			}
		}
		test("file:"+c.profilePath(doc.p), c04Entries)
		// structural corruption JSON-LD must reject
		nk := 2
		if *tier == "thorough" {
			nk = 3
		}
		for _, op := range ldOps {
			for j := 0; j < nk; j++ {
				test(fmt.Sprintf("ld:%s:%d", op, dr.intn(64)), c04Entries)
			}
		}
		b, _ := json.Marshal(sum)
		w.Write(b)
		w.WriteByte('\n')
		w.Flush()
	}
	fmt.Fprintf(w, "{\"shard_done\":%d,\"at\":%d,\"documents_skipped_for_budget\":%d}\n", *shard, time.Now().Unix(), skipped)
}
