package main

import (
	"bufio"
	"crypto/sha256"
	"encoding/hex"
	"encoding/json"
	"fmt"
	"os"
	"regexp"
	"strings"
	"sync"
	"time"

	"github.com/aml-org/amf-custom-validator/simrt"
	"github.com/open-policy-agent/opa/rego"
)

// RunSpec is one simulated execution of engine A: a serial prologue, then N tasks under the
// baton scheduler. Everything in it is derived from (mode, tier, seed).
type RunSpec struct {
	Mode     string       `json:"mode"`
	Seed     uint64       `json:"seed"`
	Slots    int          `json:"slots"`
	Prologue []Op         `json:"prologue"`
	Tasks    [][]Op       `json:"tasks"`
	Pol      simrt.Policy `json:"policy"`
}

type Decisions struct {
	Switches []simrt.SwitchPoint  `json:"switches"`
	Maps     []simrt.MapDecision  `json:"maps"`
	Fails    []simrt.FailDecision `json:"fails"`
}

type Violation struct {
	Class  string `json:"class"`
	Task   int    `json:"task"`
	Op     int    `json:"op"`
	Kind   string `json:"kind"`
	Detail string `json:"detail"`
	Sig    string `json:"sig"` // what known-findings entries match against
}

type RunResult struct {
	Seed        uint64         `json:"seed"`
	Spec        *RunSpec       `json:"spec,omitempty"`
	Dec         *Decisions     `json:"decisions,omitempty"`
	Stats       simrt.Stats    `json:"stats"`
	Outcomes    [][]string     `json:"outcomes,omitempty"`
	Violation   *Violation     `json:"violation,omitempty"`
	Nontrivial  bool           `json:"nontrivial"`
	Sig         string         `json:"sig"`      // hash of (workload, decisions actually taken)
	SchedSig    string         `json:"schedsig"` // hash of the switch sequence
	TraceSig    string         `json:"tracesig"` // hash of all decisions + outcomes: replay must reproduce it
	WallMs      int64          `json:"wall_ms"`
	SimMs       int64          `json:"sim_ms"`
	Probes      map[string]int `json:"probes,omitempty"`
	Harness     string         `json:"harness_error,omitempty"`
	PrefixSeeds []uint64       `json:"prefix_seeds,omitempty"`
	Tier        string         `json:"tier,omitempty"`
	TZ          string         `json:"tz,omitempty"`         // time zone of the process that executed the run
	GMP         int            `json:"gomaxprocs,omitempty"` // GOMAXPROCS of the process that executed the run
}

// freeRunning: tasks run as ordinary goroutines with real parallelism and no scheduler (the
// un-simulated supplementary pass of C10's thorough tier; not seed-replayable).
var freeRunning bool

func execFree(c *Corpus, rc *refCache, sp *RunSpec) *RunResult {
	t0 := time.Now()
	res := &RunResult{Seed: sp.Seed, Probes: map[string]int{}, Spec: sp, Dec: &Decisions{}}
	handles := make([]*rego.PreparedEvalQuery, sp.Slots+1)
	fixed := instant(baseInstant)
	simrt.NowHook = func() time.Time { return fixed }
	defer func() { simrt.NowHook = nil }()
	norm := func(op Op) Op { op.T = baseInstant; return op }
	var proRes []Res
	for _, op := range sp.Prologue {
		proRes = append(proRes, execOp(c, norm(op), handles, func(time.Time) {}))
	}
	results := make([][]Res, len(sp.Tasks))
	var wg sync.WaitGroup
	start := make(chan struct{})
	for ti := range sp.Tasks {
		ti := ti
		results[ti] = make([]Res, len(sp.Tasks[ti]))
		wg.Add(1)
		go func() {
			defer wg.Done()
			<-start
			for oi, op := range sp.Tasks[ti] {
				results[ti][oi] = execOp(c, norm(op), handles, func(time.Time) {})
			}
		}()
	}
	close(start)
	wg.Wait()
	for ti := range sp.Tasks {
		var row []string
		for oi, op := range sp.Tasks[ti] {
			got := results[ti][oi]
			row = append(row, got.key())
			if res.Violation != nil {
				continue
			}
			if (op.Kind == "vcompiled" || op.Kind == "vcompiled_cfg") && got.Err && got.ErrTxt == "no handle" {
				continue
			}
			want, err := rc.get(c, norm(op))
			if err != nil {
				res.Harness = err.Error()
				continue
			}
			if !sameOutcome(got, want) {
				res.Violation = &Violation{Class: "result_mismatch", Task: ti, Op: oi, Kind: op.Kind,
					Detail: fmt.Sprintf("free-running: profile=%s data=%s got{%s} want{%s} %s", c.Profiles[op.P].ID, dataID(c, op), got.key(), want.key(), firstDiff(got.Report, want.Report)),
					Sig:    "result_mismatch:" + op.Kind}
			}
		}
		res.Outcomes = append(res.Outcomes, row)
	}
	_ = proRes
	res.Sig = shortHash([]byte(fmt.Sprint(sp.Seed)))
	res.Nontrivial = len(sp.Tasks) > 1
	res.WallMs = time.Since(t0).Milliseconds()
	return res
}

// deadlockEmit writes the result of a run whose calls never return (installed by batchMain).
var deadlockEmit func(*RunResult)

// checkForeign is set when the instrumenter saw `go` statements in repository code.
var checkForeign bool

type rng struct{ s uint64 }

func (r *rng) next() uint64 {
	r.s += 0x9e3779b97f4a7c15
	z := r.s
	z = (z ^ (z >> 30)) * 0xbf58476d1ce4e5b9
	z = (z ^ (z >> 27)) * 0x94d049bb133111eb
	return z ^ (z >> 31)
}
func (r *rng) intn(n int) int {
	if n <= 0 {
		return 0
	}
	return int(r.next() % uint64(n))
}
func (r *rng) chance(pct int) bool { return r.intn(100) < pct }

type pools struct {
	small []int // profile indices with small profile + at least one small data doc
	all   []int
	gen   []int // generated multi-key profiles
	spec  []int // hand-written profiles with unusual features (re-bound built-in prefixes, '%' in messages, many validations)
}

func buildPools(c *Corpus, tier string) pools {
	var p pools
	for i, pr := range c.Profiles {
		if len(pr.Data) == 0 {
			continue
		}
		if pr.Class == "generated" {
			p.gen = append(p.gen, i)
		}
		if pr.Class == "special" {
			p.spec = append(p.spec, i)
		}
		p.all = append(p.all, i)
		if pr.Class != "production" && pr.Size < 6000 {
			p.small = append(p.small, i)
		}
	}
	return p
}

// smallData picks a data index of profile pi, preferring documents under lim bytes.
func smallData(c *Corpus, r *rng, pi int, lim int) int {
	ds := c.Profiles[pi].Data
	var cand []int
	for j, d := range ds {
		if d.Size <= lim {
			cand = append(cand, j)
		}
	}
	if len(cand) == 0 {
		best := 0
		for j, d := range ds {
			if d.Size < ds[best].Size {
				best = j
			}
		}
		return best
	}
	return cand[r.intn(len(cand))]
}

const baseInstant = 975369600 // 2000-11-28T00:00:00Z

func pickInstant(r *rng) int64 {
	if r.chance(6) {
		// boundary values of the clock: the Unix epoch and Go's zero time
		return []int64{0, -62135596800, 1, -1}[r.intn(4)]
	}
	// a small set of distinct instants, including ones before the base (clock going backwards)
	return baseInstant + int64(r.intn(6)-2)*86400*31 + int64(r.intn(3))*3661
}

func genPolicy(r *rng, nOps int, multi bool) simrt.Policy {
	var pol simrt.Policy
	if r.chance(60) {
		pol.MapMode = 1
	}
	if !multi {
		return pol
	}
	pol.SwitchPPM = []uint32{2000, 20000, 50000, 200000}[r.intn(4)]
	if r.chance(50) {
		pol.Directed = true
		pol.ParkPPM = 500000
	}
	d := r.intn(4)
	for i := 0; i < d; i++ {
		pol.PCT = append(pol.PCT, 1+r.intn(400*nOps))
	}
	pol.Torn = r.chance(50)
	pol.ParkBudget = 200 + r.intn(800)
	return pol
}

// genC10: N concurrent tasks over mixed profiles, shared and private compiled handles.
func genC10(c *Corpus, pl pools, seed uint64, tier string) *RunSpec {
	r := &rng{seed}
	sp := &RunSpec{Mode: "c10", Seed: seed}
	nTasks := 2 + r.intn(3)
	if r.chance(15) {
		nTasks = 5 + r.intn(2)
	}
	nProf := 1 + r.intn(3)
	pool := pl.small
	if len(pl.gen) > 0 && r.chance(35) {
		pool = pl.gen
	}
	var profs []int
	for i := 0; i < nProf; i++ {
		if len(pl.spec) > 0 && r.chance(15) {
			profs = append(profs, pl.spec[r.intn(len(pl.spec))])
			continue
		}
		profs = append(profs, pool[r.intn(len(pool))])
	}
	if r.chance(6) {
		// documents whose @context is a reference: every task goes through the JSON-LD document loader
		for i, pr := range c.Profiles {
			if pr.ID == "special/context_ref" {
				profs = []int{i}
			}
		}
	}
	lim := 40000
	nShared := r.intn(3)
	for h := 0; h < nShared; h++ {
		sp.Prologue = append(sp.Prologue, Op{Kind: "compile", P: profs[r.intn(len(profs))], D: -1, H: h, T: pickInstant(r)})
	}
	slot := nShared
	nOps := 0
	for t := 0; t < nTasks; t++ {
		var ops []Op
		n := 1 + r.intn(2)
		if r.chance(15) {
			n = 3
		}
		private := -1
		privateP := 0
		for i := 0; i < n; i++ {
			p := profs[r.intn(len(profs))]
			op := Op{P: p, D: smallData(c, r, p, lim), T: pickInstant(r), RC: r.intn(5), H: -1}
			switch k := r.intn(10); {
			case k < 3:
				op.Kind = "validate"
			case k < 5:
				op.Kind = "validate_cfg"
			case k < 7 && nShared > 0:
				h := r.intn(nShared)
				op.H = h
				op.P = sp.Prologue[h].P
				op.D = smallData(c, r, op.P, lim)
				op.Kind = []string{"vcompiled", "vcompiled_cfg"}[r.intn(2)]
			case k < 9:
				if private >= 0 && r.chance(60) {
					op.H, op.P = private, privateP
					op.D = smallData(c, r, op.P, lim)
					op.Kind = []string{"vcompiled", "vcompiled_cfg"}[r.intn(2)]
				} else {
					op.Kind, op.D, op.H = "compile", -1, slot
					private, privateP = slot, p
					slot++
				}
			default:
				op.Kind = "validate_cfg"
			}
			if op.D >= 0 && r.chance(8) {
				dlen := c.Profiles[op.P].Data[op.D].Size
				op.Fault = []string{"trunc:0", fmt.Sprintf("trunc:%d", r.intn(dlen+1)), fmt.Sprintf("ld:%s:%d", ldOps[r.intn(len(ldOps))], r.intn(50)), litDocs[r.intn(len(litDocs))]}[r.intn(4)]
			}
			ops = append(ops, op)
			nOps++
		}
		sp.Tasks = append(sp.Tasks, ops)
	}
	sp.Slots = slot
	sp.Pol = genPolicy(r, nOps, true)
	return sp
}

var faultKinds = []string{"trunc", "trunc0", "ld", "bom", "utf16le", "lit"}

var litDocs = []string{"lit:[]", "lit:{}", "lit:7", "lit:null", "lit:[[]]", "lit:{\"@graph\": 7}", "lit:\"text\""}

// genC09: one task, a history of 3..40 operations over 1..3 compiled handles.
func genC09(c *Corpus, pl pools, seed uint64, tier string, failSites []string) *RunSpec {
	r := &rng{seed}
	sp := &RunSpec{Mode: "c09", Seed: seed}
	pool := pl.small
	if tier == "thorough" && r.chance(15) {
		pool = pl.all
	}
	if len(pl.gen) > 0 && r.chance(20) {
		pool = pl.gen
	}
	nH := 1 + r.intn(3)
	var hp []int
	allSpecial := len(pl.spec) > 0 && r.chance(12)
	for h := 0; h < nH; h++ {
		if allSpecial || (len(pl.spec) > 0 && r.chance(10)) {
			hp = append(hp, pl.spec[r.intn(len(pl.spec))])
			continue
		}
		hp = append(hp, pool[r.intn(len(pool))])
	}
	n := 3 + r.intn(10)
	if r.chance(20) {
		n = 12 + r.intn(29)
	}
	lim := 60000
	if tier == "thorough" {
		lim = 1 << 20
	}
	faulty := r.chance(50) // fault-free and fault-injecting histories are separate configurations
	// one history in 25 is a burst: a long history in which three documents out of four fail, all in the same
	// way (the kind rotates with the seed) - what a client that keeps retrying a bad document does to a handle.
	// A resource taken per call and not given back on one failure path shows only after many such calls.
	burst, burstKind := seed%25 == 7, ""
	if burst {
		faulty = true
		burstKind = faultKinds[int(seed/25)%len(faultKinds)]
		n = 26 + r.intn(15)
	}
	var ops []Op
	compiled := make([]bool, nH)
	var last Op
	for i := 0; i < n; i++ {
		h := r.intn(nH)
		if !compiled[h] {
			ops = append(ops, Op{Kind: "compile", P: hp[h], D: -1, H: h, T: pickInstant(r), Chan: r.chance(10)})
			compiled[h] = true
			continue
		}
		op := Op{P: hp[h], H: h, T: pickInstant(r), RC: 0}
		if r.chance(40) {
			op.RC = r.intn(5)
		}
		op.D = smallData(c, r, op.P, lim)
		switch k := r.intn(10); {
		case k < 4:
			op.Kind = "vcompiled_cfg"
		case k < 7:
			op.Kind = "vcompiled"
		case k < 8:
			op.Kind = "validate_cfg"
		case k < 9:
			op.Kind = "validate"
		default:
			op.Kind, op.D = "compile", -1 // recompile into the same slot
		}
		if i > 0 && r.chance(20) && last.Kind != "compile" && op.Kind != "compile" && last.P == op.P {
			op.D, op.Fault = last.D, last.Fault // the same document again
		}
		if faulty && op.D >= 0 && r.chance(map[bool]int{true: 75, false: 25}[burst]) {
			dlen := c.Profiles[op.P].Data[op.D].Size
			fk := faultKinds[r.intn(len(faultKinds))]
			if burst {
				fk = burstKind
			}
			switch fk {
			case "trunc":
				op.Fault = fmt.Sprintf("trunc:%d", r.intn(dlen+1))
			case "trunc0":
				op.Fault = "trunc:0"
			case "ld":
				op.Fault = fmt.Sprintf("ld:%s:%d", ldOps[r.intn(len(ldOps))], r.intn(50))
			case "bom":
				op.Fault = "bom"
			case "utf16le":
				op.Fault = "utf16le"
			case "lit":
				op.Fault = litDocs[r.intn(len(litDocs))]
			}
		}
		if r.chance(15) {
			op.Chan = true
		}
		ops = append(ops, op)
		last = op
	}
	sp.Tasks = [][]Op{ops}
	sp.Slots = nH
	sp.Pol = genPolicy(r, len(ops), false)
	if faulty && len(failSites) > 0 && r.chance(60) {
		k := 1 + r.intn(2)
		for i := 0; i < k; i++ {
			sp.Pol.FailPlan = append(sp.Pol.FailPlan, simrt.FailDecision{Site: failSites[r.intn(len(failSites))], Nth: 1 + r.intn(2*len(ops))})
		}
	}
	return sp
}

// genC04c: several tasks validate the SAME unreadable document at the same time (through a shared
// compiled profile and through the text path). Each of them must get an error: sharing work
// between concurrent calls must not turn one caller's error into another caller's verdict.
func genC04c(c *Corpus, pl pools, seed uint64, tier string) *RunSpec {
	r := &rng{seed}
	sp := &RunSpec{Mode: "c04", Seed: seed}
	pool := pl.small
	p := pool[r.intn(len(pool))]
	d := smallData(c, r, p, 60000)
	dlen := c.Profiles[p].Data[d].Size
	faults := []string{"trunc:0", fmt.Sprintf("trunc:%d", r.intn(dlen+1)), fmt.Sprintf("trunc:%d", dlen/2), "bom", "utf16le",
		fmt.Sprintf("ld:%s:%d", ldOps[r.intn(len(ldOps))], r.intn(50)), fmt.Sprintf("flip:%d:%d", r.intn(dlen+1), r.intn(8))}
	f1 := faults[r.intn(len(faults))]
	f2 := faults[r.intn(len(faults))]
	sp.Prologue = []Op{{Kind: "compile", P: p, D: -1, H: 0, T: baseInstant}}
	nTasks := 2 + r.intn(3)
	for t := 0; t < nTasks; t++ {
		var ops []Op
		n := 1 + r.intn(2)
		for i := 0; i < n; i++ {
			op := Op{P: p, D: d, H: 0, T: baseInstant, Fault: f1}
			if r.chance(20) {
				op.Fault = f2
			}
			if r.chance(10) {
				op.Fault = "" // a readable sibling call in the mix
			}
			op.Kind = []string{"vcompiled", "vcompiled", "vcompiled_cfg", "validate", "validate_cfg"}[r.intn(5)]
			op.Chan = r.chance(20)
			ops = append(ops, op)
		}
		sp.Tasks = append(sp.Tasks, ops)
	}
	sp.Slots = 1
	sp.Pol = genPolicy(r, 2*nTasks, true)
	sp.Pol.Torn = false
	return sp
}

// genC06: the same (profile, data, configuration, clock) many times: repeated calls, through a
// compiled profile, code generation, and concurrently; every map range permuted.
func genC06(c *Corpus, pl pools, seed uint64, tier string) *RunSpec {
	r := &rng{seed}
	sp := &RunSpec{Mode: "c06", Seed: seed}
	pool := pl.small
	if tier == "thorough" && r.chance(20) {
		pool = pl.all
	}
	if len(pl.gen) > 0 && r.chance(50) {
		pool = pl.gen
	}
	p := pool[r.intn(len(pool))]
	if len(pl.spec) > 0 && r.chance(15) {
		p = pl.spec[r.intn(len(pl.spec))]
	}
	lim := 60000
	if tier == "thorough" {
		lim = 1 << 20
	}
	d := smallData(c, r, p, lim)
	// every third seed belongs to a sweep over all (hand-written special profile, document) pairs: each of them
	// exists because some defect needed exactly that input, so none of them is left to chance
	sweep := false
	if seed%3 == 0 {
		var pairs [][2]int
		for _, sp := range pl.spec {
			for j, dd := range c.Profiles[sp].Data {
				if dd.Size <= lim {
					pairs = append(pairs, [2]int{sp, j})
				}
			}
		}
		if len(pairs) > 0 {
			pr := pairs[int(seed/3)%len(pairs)]
			p, d = pr[0], pr[1]
			sweep = true
		}
	}
	t := pickInstant(r)
	rc := r.intn(5)
	// "across repeated calls": other work happens between two calls with the same inputs
	other := func() Op {
		if nd := len(c.Profiles[p].Data); nd > 1 && r.chance(map[bool]int{true: 60, false: 30}[sweep]) {
			// a sibling document of the same profile (AMF numbers nodes the same way in every model: the two
			// documents share node ids although they describe different things)
			d2 := r.intn(nd)
			if d2 == d {
				d2 = (d2 + 1) % nd
			}
			if c.Profiles[p].Data[d2].Size <= lim {
				return Op{Kind: "validate_cfg", P: p, D: d2, T: pickInstant(r), RC: r.intn(5), H: -1}
			}
		}
		q := pl.small[r.intn(len(pl.small))]
		if len(pl.spec) > 0 && r.chance(50) {
			q = pl.spec[r.intn(len(pl.spec))]
		}
		return Op{Kind: "validate_cfg", P: q, D: smallData(c, r, q, lim), T: pickInstant(r), RC: r.intn(5), H: -1}
	}
	nTasks := 1
	if r.chance(40) {
		nTasks = 2 + r.intn(3)
	}
	slot := 0
	for ti := 0; ti < nTasks; ti++ {
		var ops []Op
		ops = append(ops, Op{Kind: "validate_cfg", P: p, D: d, T: t, RC: rc, H: -1})
		if r.chance(40) {
			ops = append(ops, other())
		}
		if r.chance(60) {
			ops = append(ops, Op{Kind: "validate_cfg", P: p, D: d, T: t, RC: rc, H: -1})
		}
		if r.chance(25) {
			ops = append(ops, other())
		}
		if r.chance(50) {
			ops = append(ops, Op{Kind: "compile", P: p, D: -1, H: slot, T: t})
			ops = append(ops, Op{Kind: "vcompiled_cfg", P: p, D: d, T: t, RC: rc, H: slot})
			slot++
		}
		if r.chance(40) {
			ops = append(ops, Op{Kind: "validate_cfg", P: p, D: d, T: t, RC: rc, H: -1})
		}
		sp.Tasks = append(sp.Tasks, ops)
	}
	sp.Slots = slot
	sp.Pol = genPolicy(r, 4*nTasks, nTasks > 1)
	sp.Pol.MapMode = 1
	sp.Pol.Torn = false
	return sp
}

// execRun executes a run spec (optionally replaying recorded decisions) and checks every
// operation against the reference model.
func execRun(c *Corpus, rc *refCache, sp *RunSpec, replay *Decisions) *RunResult {
	t0 := time.Now()
	res := &RunResult{Seed: sp.Seed, Probes: map[string]int{}}
	handles := make([]*rego.PreparedEvalQuery, sp.Slots+1)
	n := len(sp.Tasks)
	results := make([][]Res, n)
	failedDuring := make([][]bool, n)
	// prologue: serial, outside the scheduler
	var proRes []Res
	for _, op := range sp.Prologue {
		tt := instant(op.T)
		simrt.NowHook = func() time.Time { return tt }
		proRes = append(proRes, execOp(c, op, handles, func(time.Time) {}))
		simrt.NowHook = nil
	}
	if freeRunning {
		return execFree(c, rc, sp)
	}
	s := simrt.NewSched(n, sp.Seed^0x5bd1e995, sp.Pol)
	s.CheckForeign = checkForeign
	if replay != nil {
		s.SetReplay(replay.Switches, replay.Maps)
		s.Pol.FailPlan = replay.Fails
	}
	tasks := make([]func(), n)
	for ti := range sp.Tasks {
		ti := ti
		results[ti] = make([]Res, len(sp.Tasks[ti]))
		failedDuring[ti] = make([]bool, len(sp.Tasks[ti]))
		tasks[ti] = func() {
			for oi, op := range sp.Tasks[ti] {
				before := s.FailCount()
				results[ti][oi] = execOp(c, op, handles, func(t time.Time) { s.OpTime[ti] = t })
				failedDuring[ti][oi] = s.FailCount() != before
			}
		}
	}
	simrt.DeadlockHook = func(stacks string) {
		// the calls of this run will never return: report it and leave the process (its goroutines are stuck)
		res.Stats = s.St
		res.Dec = &Decisions{Switches: s.Trace, Maps: s.MapTrace, Fails: s.FailTrace}
		res.Spec = sp
		res.PrefixSeeds = prefixSeeds
		if len(stacks) > 5000 {
			stacks = stacks[:5000]
		}
		res.Violation = &Violation{Class: "deadlock", Task: -1, Op: -1, Kind: "deadlock",
			Detail: "all unfinished calls are blocked on synchronisation of the library and nothing else is runnable: the calls never return | " + stacks,
			Sig:    "deadlock:calls_never_return"}
		if deadlockEmit != nil {
			deadlockEmit(res)
		}
		os.Exit(0)
	}
	ts := time.Now()
	s.Run(tasks)
	res.SimMs = time.Since(ts).Milliseconds()
	res.Stats = s.St
	res.Dec = &Decisions{Switches: s.Trace, Maps: s.MapTrace, Fails: s.FailTrace}
	res.Spec = sp

	// oracle: every op equals its fresh independent reference
	check := func(ti, oi int, op Op, got Res, injected bool) {
		if res.Violation != nil {
			return
		}
		want, err := rc.get(c, op)
		if err != nil {
			res.Harness = err.Error()
			return
		}
		if got.Panic != "" {
			res.Probes["op_panicked"]++
		}
		if got.Err {
			res.Probes["op_error"]++
		}
		if op.Kind == "vcompiled" || op.Kind == "vcompiled_cfg" {
			if got.ErrTxt == "no handle" && got.Err {
				// the compile this op depends on failed (as its own reference says): nothing to compare
				res.Probes["skipped_no_handle"]++
				return
			}
		}
		if sp.Mode == "c04" && op.D >= 0 && op.Fault != "" {
			_, dtxt := c.texts(op)
			bad, reason, und := unreadable(dtxt)
			if bad && !und {
				res.Probes["unreadable_concurrent_call"]++
				if cls, det := judge(op.Kind, got); cls != "" {
					res.Violation = &Violation{Class: cls, Task: ti, Op: oi, Kind: op.Kind,
						Detail: fmt.Sprintf("profile=%s data=%s fault=%q [%s]: %s (while %d tasks validate concurrently)", c.Profiles[op.P].ID, dataID(c, op), op.Fault, clip(reason), det, len(sp.Tasks)),
						Sig:    cls + ":concurrent:" + faultKind(op.Fault)}
				}
				return
			}
		}
		if injected {
			// A forced stage failure made this call take an error path. C09 is about what the call leaves
			// behind, not about the call itself (code may legitimately tolerate a failed sub-step and go on
			// with less): the step is not judged, every later step is held to full equality.
			res.Probes["step_with_injected_failure"]++
			if !got.Err && got.Panic == "" {
				res.Probes["injected_failure_tolerated_by_the_call"]++
			}
			return
		}
		if op.Chan {
			res.Probes["op_with_event_channel"]++
		}
		if !sameOutcome(got, want) {
			res.Violation = &Violation{Class: "result_mismatch", Task: ti, Op: oi, Kind: op.Kind,
				Detail: fmt.Sprintf("profile=%s data=%s fault=%q got{%s} want{%s} %s", c.Profiles[op.P].ID, dataID(c, op), op.Fault, got.key(), want.key(), firstDiff(got.Report, want.Report)),
				Sig:    "result_mismatch:" + op.Kind}
		}
	}
	for i, op := range sp.Prologue {
		check(-1, i, op, proRes[i], false)
	}
	for ti := range sp.Tasks {
		var row []string
		for oi, op := range sp.Tasks[ti] {
			check(ti, oi, op, results[ti][oi], failedDuring[ti][oi])
			row = append(row, results[ti][oi].key())
		}
		res.Outcomes = append(res.Outcomes, row)
	}
	// signatures
	wb, _ := json.Marshal(struct {
		P [][]Op
		Q []Op
	}{sp.Tasks, sp.Prologue})
	db, _ := json.Marshal(res.Dec)
	ob, _ := json.Marshal(res.Outcomes)
	sb, _ := json.Marshal(res.Dec.Switches)
	res.Sig = shortHash(append(wb, db...))
	res.SchedSig = shortHash(sb)
	res.TraceSig = shortHash(append(append(wb, db...), ob...))
	res.Nontrivial = s.St.Switches > n || s.St.MapPermuted > 0 || s.St.FailFired > 0 || hasFault(sp)
	res.WallMs = time.Since(t0).Milliseconds()
	return res
}

func hasFault(sp *RunSpec) bool {
	for _, t := range sp.Tasks {
		for _, op := range t {
			if op.Fault != "" {
				return true
			}
		}
	}
	return false
}

func dataID(c *Corpus, op Op) string {
	if op.D < 0 {
		return "-"
	}
	return c.Profiles[op.P].Data[op.D].Path
}

func shortHash(b []byte) string {
	h := sha256.Sum256(b)
	return hex.EncodeToString(h[:8])
}

func firstDiff(a, b string) string {
	la, lb := strings.Split(a, "\n"), strings.Split(b, "\n")
	for i := 0; i < len(la) && i < len(lb); i++ {
		if la[i] != lb[i] {
			return fmt.Sprintf("first difference at line %d: got %q want %q", i+1, clip(la[i]), clip(lb[i]))
		}
	}
	if len(la) != len(lb) {
		return fmt.Sprintf("line counts differ: got %d want %d", len(la), len(lb))
	}
	return ""
}

func clip(s string) string {
	if len(s) > 160 {
		return s[:160] + "..."
	}
	return s
}

// ---- race report handling (only meaningful in -race builds) ----

var raceFuncRe = regexp.MustCompile(`(?m)^  ([^\s(]+)\(`)

// raceSignature reduces a race detector report to the first repo/library function of each of
// the two conflicting accesses, e.g. "profile.Genvar<->profile.Genvar".
func raceSignature(report string) string {
	blocks := strings.Split(report, "\n\n")
	var tops []string
	for _, b := range blocks {
		if !(strings.Contains(b, " at 0x") && strings.Contains(b, "by goroutine")) && !strings.Contains(b, "by main goroutine") {
			continue
		}
		if !strings.Contains(b, "ead at") && !strings.Contains(b, "rite at") {
			continue
		}
		for _, m := range raceFuncRe.FindAllStringSubmatch(b, -1) {
			fn := m[1]
			if strings.Contains(fn, "/simrt.") || strings.HasPrefix(fn, "runtime.") {
				continue
			}
			fn = strings.TrimPrefix(fn, "github.com/aml-org/amf-custom-validator/")
			tops = append(tops, fn)
			break
		}
		if len(tops) == 2 {
			break
		}
	}
	if len(tops) == 2 && tops[0] > tops[1] {
		tops[0], tops[1] = tops[1], tops[0]
	}
	return strings.Join(tops, "<->")
}

func raceLogSize(prefix string) (int64, string) {
	name := fmt.Sprintf("%s.%d", prefix, os.Getpid())
	st, err := os.Stat(name)
	if err != nil {
		return 0, name
	}
	return st.Size(), name
}

func emit(w *bufio.Writer, r *RunResult, verbose bool) {
	if !verbose && r.Violation == nil && r.Harness == "" {
		// keep the stream small: the full spec/decisions are only needed for violations and samples
		r2 := *r
		r2.Spec, r2.Dec, r2.Outcomes = nil, nil, nil
		r = &r2
	}
	b, _ := json.Marshal(r)
	w.Write(b)
	w.WriteByte('\n')
	w.Flush()
}
