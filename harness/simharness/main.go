// simharness is injected into the scratch copy of the repository (it must live inside the
// module to import internal/...). It contains the drivers of engine A (baton scheduler:
// C06, C09, C10) and the direct-call part of C04, plus the reference-model process.
package main

import (
	"bufio"
	"encoding/json"
	"flag"
	"fmt"
	"os"
	"runtime"
	"strconv"
	"strings"

	"github.com/aml-org/amf-custom-validator/simrt"
)

type census struct {
	FailSites []string `json:"fail_sites"`
	GoStmts   []string `json:"go_stmts"`
}

// replayPrefix: runs executed earlier in the same process (regenerated from their seeds); state
// that a defect keeps at process level makes a violation depend on them.
type replayPrefix struct {
	Mode  string   `json:"mode"`
	Tier  string   `json:"tier"`
	Seeds []uint64 `json:"seeds"`
}

type replayFile struct {
	Prefix    *replayPrefix `json:"prefix,omitempty"`
	Property  string        `json:"property"`
	Engine    string        `json:"engine"`
	Seed      uint64        `json:"seed"`
	Spec      *RunSpec      `json:"spec"`
	Dec       *Decisions    `json:"decisions"`
	Violation *Violation    `json:"violation"`
}

func main() {
	if len(os.Args) < 2 {
		fmt.Fprintln(os.Stderr, "usage: simharness ref | batch | c04 ...")
		os.Exit(2)
	}
	if v := os.Getenv("SIM_SPIN"); v != "" {
		simrt.SpinBeforeSleep, _ = strconv.Atoi(v)
	}
	switch os.Args[1] {
	case "ref":
		refMain()
	case "batch":
		batchMain(os.Args[2:])
	case "c04":
		c04Main(os.Args[2:])
	default:
		fmt.Fprintln(os.Stderr, "unknown subcommand", os.Args[1])
		os.Exit(2)
	}
}

// prefixSeeds: seeds already executed in this process when the current run started.
var prefixSeeds []uint64

func genSpec(c *Corpus, pl pools, mode, tier string, seed uint64, failSites []string) *RunSpec {
	switch mode {
	case "c06":
		return genC06(c, pl, seed, tier)
	case "c09":
		return genC09(c, pl, seed, tier, failSites)
	case "c10":
		return genC10(c, pl, seed, tier)
	case "c04":
		return genC04c(c, pl, seed, tier)
	}
	fmt.Fprintln(os.Stderr, "unknown mode", mode)
	os.Exit(2)
	return nil
}

func batchMain(args []string) {
	fs := flag.NewFlagSet("batch", flag.ExitOnError)
	mode := fs.String("mode", "", "c06 | c09 | c10")
	tier := fs.String("tier", "quick", "")
	corpusF := fs.String("corpus", "", "corpus index (json)")
	censusF := fs.String("census", "", "instrumentation census (json)")
	seeds := fs.String("seeds", "", "start:count")
	replayF := fs.String("replay", "", "replay file (one recorded run)")
	refdir := fs.String("refdir", "", "reference cache directory")
	racelog := fs.String("racelog", "", "GORACE log_path prefix (race builds)")
	samples := fs.Int("samples", 2, "emit the full spec and decisions of the first N runs")
	specOnly := fs.Bool("speconly", false, "print the generated run specs without executing them")
	free := fs.Bool("free", false, "run the tasks free (no scheduler, real parallelism): un-simulated supplementary pass")
	fs.Parse(args)

	c, err := loadCorpus(*corpusF)
	if err != nil {
		fmt.Fprintln(os.Stderr, "corpus:", err)
		os.Exit(2)
	}
	var cen census
	if *censusF != "" {
		b, err := os.ReadFile(*censusF)
		if err == nil {
			json.Unmarshal(b, &cen)
		}
	}
	freeRunning = *free
	checkForeign = len(cen.GoStmts) > 0 || os.Getenv("SIM_CHECK_FOREIGN") != ""
	rc := newRefCache(*refdir)
	w := bufio.NewWriterSize(os.Stdout, 1<<20)
	defer w.Flush()
	pl := buildPools(c, *tier)

	deadlockEmit = func(r *RunResult) {
		r.Tier = *tier
		emit(w, r, true)
		fmt.Fprintf(w, "{\"stopped_after_seed\":%d}\n", r.Seed)
		w.Flush()
	}
	if v := os.Getenv("SIM_DEADLOCK_SAMPLES"); v != "" {
		simrt.DeadlockSamples, _ = strconv.Atoi(v)
	}
	runOne := func(sp *RunSpec, dec *Decisions, verbose bool) *RunResult {
		before, _ := raceLogSize(*racelog)
		r := execRun(c, rc, sp, dec)
		r.PrefixSeeds = prefixSeeds
		r.Tier = *tier
		r.TZ = os.Getenv("TZ")
		r.GMP = runtime.GOMAXPROCS(0)
		if *racelog != "" {
			after, name := raceLogSize(*racelog)
			if after > before {
				b, _ := os.ReadFile(name)
				rep := string(b[before:])
				sig := raceSignature(rep)
				if len(rep) > 6000 {
					rep = rep[:6000]
				}
				r.Violation = &Violation{Class: "race", Task: -1, Op: -1, Kind: "race", Detail: rep, Sig: "race:" + sig}
			}
		}
		emit(w, r, verbose)
		return r
	}

	if *replayF != "" {
		b, err := os.ReadFile(*replayF)
		if err != nil {
			fmt.Fprintln(os.Stderr, "replay:", err)
			os.Exit(2)
		}
		var rf replayFile
		if err := json.Unmarshal(b, &rf); err != nil {
			fmt.Fprintln(os.Stderr, "replay:", err)
			os.Exit(2)
		}
		if rf.Prefix != nil {
			for _, ps := range rf.Prefix.Seeds {
				execRun(c, rc, genSpec(c, pl, rf.Prefix.Mode, rf.Prefix.Tier, ps, cen.FailSites), nil)
			}
		}
		runOne(rf.Spec, rf.Dec, true)
		return
	}

	parts := strings.Split(*seeds, ":")
	start, _ := strconv.ParseUint(parts[0], 10, 64)
	count, _ := strconv.Atoi(parts[1])
	var executed []uint64
	for i := 0; i < count; i++ {
		seed := start + uint64(i)
		sp := genSpec(c, pl, *mode, *tier, seed, cen.FailSites)
		if *specOnly {
			b, _ := json.Marshal(map[string]any{"seed": seed, "spec": sp})
			w.Write(b)
			w.WriteByte('\n')
			continue
		}
		prefixSeeds = append([]uint64(nil), executed...)
		r := runOne(sp, nil, i < *samples)
		executed = append(executed, seed)
		if r.Violation != nil && r.Violation.Class == "race" {
			// the detector reports each stack pair once per process: stop here, the orchestrator
			// restarts the remaining seeds in a fresh process
			fmt.Fprintf(w, "{\"stopped_after_seed\":%d}\n", seed)
			return
		}
	}
	fmt.Fprintf(w, "{\"batch_done\":true,\"ref_procs\":%d,\"ref_hits\":%d}\n", rc.Procs, rc.Hits)
}
