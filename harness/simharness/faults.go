package main

import (
	"bytes"
	"encoding/json"
	"fmt"
	"os"
	"strconv"
	"strings"
	"unicode/utf16"

	"github.com/piprate/json-gold/ld"
)

// Fault operators on a stored document. A spec is "<kind>[:arg[:arg]]"; applying a spec is a
// pure function of (text, spec), so a run can be replayed from the spec alone.
//
//	trunc:K       torn write: only the first K bytes reached the store (K=0: lost write)
//	flip:OFF:BIT  one stored bit flipped
//	utf16le|utf16be|bom|latin1   the bytes were transcoded on the way
//	ld:<op>:K     structural corruption JSON-LD must reject, applied at the K-th node
//	text:<name>   misdirected read: the path resolved to some other (non JSON-LD) file; the
//	              text is carried inline by the caller, this operator is a no-op marker
func applyFault(d, spec string) string {
	parts := strings.Split(spec, ":")
	switch parts[0] {
	case "trunc":
		k, _ := strconv.Atoi(parts[1])
		if k > len(d) {
			k = len(d)
		}
		return d[:k]
	case "flip":
		off, _ := strconv.Atoi(parts[1])
		bit, _ := strconv.Atoi(parts[2])
		if len(d) == 0 {
			return d
		}
		b := []byte(d)
		off %= len(b)
		b[off] ^= 1 << uint(bit%8)
		return string(b)
	case "utf16le", "utf16be":
		u := utf16.Encode([]rune(d))
		out := make([]byte, 0, 2*len(u)+2)
		if parts[0] == "utf16le" {
			out = append(out, 0xff, 0xfe)
		} else {
			out = append(out, 0xfe, 0xff)
		}
		for _, c := range u {
			if parts[0] == "utf16le" {
				out = append(out, byte(c), byte(c>>8))
			} else {
				out = append(out, byte(c>>8), byte(c))
			}
		}
		return string(out)
	case "bom":
		return "\xef\xbb\xbf" + d
	case "latin1":
		// a Latin-1 encoded "é" lands inside the first string literal: invalid UTF-8 for a JSON reader
		i := strings.Index(d, "\"")
		if i < 0 {
			return "\xe9" + d
		}
		return d[:i+1] + "caf\xe9" + d[i+1:]
	case "lit":
		// the stored bytes are this literal (documents on which later stages choke: [], {}, 7, null)
		return strings.Join(parts[1:], ":")
	case "file":
		// misdirected read: the path resolved to another (non JSON-LD) file
		b, err := os.ReadFile(strings.Join(parts[1:], ":"))
		if err != nil {
			panic("fault file: " + err.Error())
		}
		return string(b)
	case "ld":
		k := 0
		if len(parts) > 2 {
			k, _ = strconv.Atoi(parts[2])
		}
		return ldCorrupt(d, parts[1], k)
	}
	panic("unknown fault spec " + spec)
}

var ldOps = []string{"ctxcontainer", "ctxprotected", "idnum", "idobj", "idarr", "ctxnum", "ctxloop", "ctxkeyword", "typenum", "typeobj", "valobj", "vallist", "badlang", "listlist", "revnum", "graphnum", "idbool"}

// ldCorrupt re-serialises the document with one structural corruption at the k-th node object.
// If the text is not JSON it is returned unchanged.
func ldCorrupt(d, op string, k int) string {
	dec := json.NewDecoder(strings.NewReader(d))
	dec.UseNumber()
	var v any
	if err := dec.Decode(&v); err != nil {
		return d
	}
	var nodes []map[string]any
	var walk func(x any)
	walk = func(x any) {
		switch t := x.(type) {
		case map[string]any:
			if _, ok := t["@id"]; ok {
				if _, isCtx := t["@context"]; !isCtx || len(t) > 2 {
					nodes = append(nodes, t)
				}
			}
			keys := make([]string, 0, len(t))
			for key := range t {
				keys = append(keys, key)
			}
			sortStrings(keys)
			for _, key := range keys {
				if key != "@context" {
					walk(t[key])
				}
			}
		case []any:
			for _, e := range t {
				walk(e)
			}
		}
	}
	walk(v)
	var top map[string]any
	switch t := v.(type) {
	case map[string]any:
		top = t
	case []any:
		if len(t) > 0 {
			top, _ = t[0].(map[string]any)
		}
	}
	var n map[string]any
	if len(nodes) > 0 {
		n = nodes[k%len(nodes)]
	} else {
		n = top
	}
	if n == nil || top == nil {
		return d
	}
	const prop = "http://sim.example/vocab#corrupt"
	switch op {
	case "idnum":
		n["@id"] = json.Number("7")
	case "idbool":
		n["@id"] = true
	case "idobj":
		n["@id"] = map[string]any{"a": json.Number("1")}
	case "idarr":
		n["@id"] = []any{"a", "b"}
	case "ctxcontainer":
		top["@context"] = map[string]any{"simT": map[string]any{"@id": "http://sim.example/t", "@container": json.Number("5")}}
	case "ctxprotected":
		top["@context"] = map[string]any{"@protected": json.Number("5"), "simT": "http://sim.example/t"}
	case "ctxnum":
		top["@context"] = json.Number("7")
	case "ctxloop":
		top["@context"] = map[string]any{"simA": "simB:x", "simB": "simA:y"}
	case "ctxkeyword":
		top["@context"] = map[string]any{"@type": "http://sim.example/t"}
	case "typenum":
		n["@type"] = json.Number("7")
	case "typeobj":
		n["@type"] = map[string]any{"a": "b"}
	case "valobj":
		n[prop] = map[string]any{"@value": map[string]any{"a": json.Number("1")}}
	case "vallist":
		n[prop] = map[string]any{"@value": []any{"a"}}
	case "badlang":
		n[prop] = map[string]any{"@value": "x", "@language": json.Number("5")}
	case "listlist":
		n[prop] = map[string]any{"@list": []any{map[string]any{"@list": []any{json.Number("1")}}}}
	case "revnum":
		n["@reverse"] = json.Number("3")
	case "graphnum":
		n["@graph"] = json.Number("3")
		n["@id"] = json.Number("3")
	default:
		panic("unknown ld op " + op)
	}
	var b bytes.Buffer
	enc := json.NewEncoder(&b)
	enc.SetEscapeHTML(false)
	enc.Encode(v)
	return b.String()
}

func sortStrings(a []string) {
	for i := 1; i < len(a); i++ {
		for j := i; j > 0 && a[j] < a[j-1]; j-- {
			a[j], a[j-1] = a[j-1], a[j]
		}
	}
}

// unreadable is the property's own definition of a document that must not get a verdict:
// no complete JSON value can be decoded from the text, or JSON-LD processing (json-gold
// Flatten, empty context, default options) rejects that value. It is computed here, by the
// driver, independently of the control flow of the code under test.
//
// undecided: json-gold itself panicked on the value; that is neither "rejects" nor "accepts",
// so nothing is demanded of the code under test for such a text.
func unreadable(text string) (bad bool, reason string, undecided bool) {
	dec := json.NewDecoder(bytes.NewBufferString(text))
	dec.UseNumber()
	var v any
	if err := dec.Decode(&v); err != nil {
		if strings.HasPrefix(text, "\xef\xbb\xbf") {
			// RFC 8259 lets a reader ignore a byte order mark: a BOM in front of an otherwise readable
			// document is neither clearly readable nor clearly unreadable, so nothing is demanded
			if bad, _, _ := unreadable(text[3:]); !bad {
				return false, "", true
			}
		}
		return true, "json: " + err.Error(), false
	}
	func() {
		defer func() {
			if r := recover(); r != nil {
				reason = goldPanic + fmt.Sprint(r)
				undecided = true
			}
		}()
		proc := ld.NewJsonLdProcessor()
		opts := ld.NewJsonLdOptions("")
		if _, err := proc.Flatten(v, map[string]any{}, opts); err != nil {
			reason = "jsonld: " + err.Error()
		}
	}()
	if undecided {
		return false, reason, true
	}
	return reason != "", reason, false
}

// goldPanic prefixes the reason of an undecided document on which json-gold itself panicked (as
// opposed to a document that is undecided because a reader may or may not ignore a BOM).
const goldPanic = "json-gold panic: "
