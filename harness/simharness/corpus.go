package main

import (
	"encoding/json"
	"os"
	"path/filepath"
)

// Corpus is the workload index the orchestrator builds from the tree under test
// (test/data of the scratch copy) plus /verif/corpus.
type Corpus struct {
	Root     string        `json:"root"`
	Profiles []ProfileSpec `json:"profiles"`
	ptext    map[int]string
	dtext    map[[2]int]string
}

type ProfileSpec struct {
	ID    string     `json:"id"`
	Path  string     `json:"path"`
	Size  int        `json:"size"`
	Data  []DataSpec `json:"data"`
	Class string     `json:"class"` // fixture | generated | production
}

type DataSpec struct {
	Path string `json:"path"`
	Size int    `json:"size"`
}

func loadCorpus(file string) (*Corpus, error) {
	b, err := os.ReadFile(file)
	if err != nil {
		return nil, err
	}
	c := &Corpus{}
	if err := json.Unmarshal(b, c); err != nil {
		return nil, err
	}
	c.ptext = map[int]string{}
	c.dtext = map[[2]int]string{}
	// texts are loaded eagerly so that no file I/O happens while tasks run
	for i := range c.Profiles {
		b, err := os.ReadFile(c.profilePath(i))
		if err != nil {
			return nil, err
		}
		c.ptext[i] = string(b)
		for j := range c.Profiles[i].Data {
			b, err := os.ReadFile(c.dataPath(i, j))
			if err != nil {
				return nil, err
			}
			c.dtext[[2]int{i, j}] = string(b)
		}
	}
	return c, nil
}

func (c *Corpus) abs(p string) string {
	if filepath.IsAbs(p) {
		return p
	}
	return filepath.Join(c.Root, p)
}
func (c *Corpus) profilePath(i int) string { return c.abs(c.Profiles[i].Path) }
func (c *Corpus) dataPath(i, j int) string {
	if j < 0 {
		return ""
	}
	return c.abs(c.Profiles[i].Data[j].Path)
}
func (c *Corpus) profileText(i int) string { return c.ptext[i] }
func (c *Corpus) dataText(i, j int) string { return c.dtext[[2]int{i, j}] }
