package main

import (
	"crypto/sha256"
	"encoding/hex"
	"encoding/json"
	"fmt"
	"os"
	"os/exec"
	"path/filepath"
	"strings"
	"time"

	"github.com/aml-org/amf-custom-validator/internal/validator"
	"github.com/aml-org/amf-custom-validator/pkg"
	"github.com/aml-org/amf-custom-validator/pkg/config"
	"github.com/aml-org/amf-custom-validator/pkg/events"
	"github.com/aml-org/amf-custom-validator/simrt"
	"github.com/open-policy-agent/opa/rego"
)

// Op is one call of a public entry point.
type Op struct {
	Kind  string `json:"kind"`            // compile | validate | validate_cfg | vcompiled | vcompiled_cfg | generate
	P     int    `json:"p"`               // profile index in the corpus
	D     int    `json:"d"`               // data index within the profile's data list (-1: none)
	Fault string `json:"fault,omitempty"` // fault operator applied to the data text ("" = none)
	H     int    `json:"h"`               // handle slot (compile writes it, vcompiled* read it)
	T     int64  `json:"t"`               // instant of this call (unix seconds)
	RC    int    `json:"rc"`              // report configuration variant
	Chan  bool   `json:"chan,omitempty"`  // attach an event channel to this call
}

// Res is the observable outcome of an op.
type Res struct {
	Err    bool   `json:"err"`
	ErrTxt string `json:"err_txt,omitempty"`
	Panic  string `json:"panic,omitempty"`
	Report string `json:"report"`
	Events int    `json:"events,omitempty"`
	Closed bool   `json:"closed,omitempty"`
}

func (r Res) key() string {
	h := sha256.Sum256([]byte(r.Report))
	return fmt.Sprintf("err=%v panic=%v len=%d sha=%s", r.Err, r.Panic != "", len(r.Report), hex.EncodeToString(h[:6]))
}

// sameOutcome compares what the properties talk about: error or not, panic or not, report bytes.
// Error texts are never compared (they may legitimately contain generated names).
func sameOutcome(a, b Res) bool {
	return a.Err == b.Err && (a.Panic != "") == (b.Panic != "") && a.Report == b.Report
}

type simCfg struct{ t time.Time }

func (c simCfg) ReportCreationTime() time.Time { return c.t }

func reportCfg(v int) config.ReportConfiguration {
	rc := config.DefaultReportConfiguration()
	switch v {
	case 1:
		rc.ReportSchemaIri = "http://sim.example/schemas/report.yaml"
		rc.LexicalSchemaIri = "http://sim.example/schemas/lexical.yaml"
	case 2:
		rc.IncludeReportCreationTime = false
	case 3:
		// a partially filled configuration, as a caller writes it by hand: empty schema IRIs
		rc = config.ReportConfiguration{IncludeReportCreationTime: false}
	case 4:
		rc = config.ReportConfiguration{IncludeReportCreationTime: true, ReportSchemaIri: "http://sim.example/only-report.yaml"}
	}
	return rc
}

func instant(t int64) time.Time { return time.Unix(t, 0).UTC() }

// texts resolves the profile and data text of an op (fault operators applied).
func (c *Corpus) texts(op Op) (string, string) {
	p := c.profileText(op.P)
	d := ""
	if op.D >= 0 {
		d = c.dataText(op.P, op.D)
		if op.Fault != "" {
			d = applyFault(d, op.Fault)
		}
	}
	return p, d
}

// execOp runs one op against the library. setNow tells the simulator which instant
// simrt.Now must return while this op runs (entry points without configuration read the clock).
func execOp(c *Corpus, op Op, handles []*rego.PreparedEvalQuery, setNow func(time.Time)) (res Res) {
	ptxt, dtxt := c.texts(op)
	t := instant(op.T)
	if op.Kind == "validate_cfg" || op.Kind == "vcompiled_cfg" {
		// the caller configured the report time: the wall clock of the process shows something else
		setNow(t.Add(77777 * time.Second))
	} else {
		setNow(t)
	}
	var ch *chan events.Event
	var chv chan events.Event
	if op.Chan {
		chv = make(chan events.Event, 64)
		ch = &chv
	}
	defer func() {
		if r := recover(); r != nil {
			res.Panic = fmt.Sprint(r)
		}
		if ch != nil {
			// non-blocking drain: how many events arrived and whether the channel was closed
			for {
				select {
				case _, ok := <-chv:
					if !ok {
						res.Closed = true
						return
					}
					res.Events++
					continue
				default:
				}
				return
			}
		}
	}()
	var rep string
	var err error
	switch op.Kind {
	case "compile":
		var h *rego.PreparedEvalQuery
		h, err = pkg.CompileProfile(ptxt, false, ch)
		if err == nil {
			handles[op.H] = h
		} else {
			handles[op.H] = nil
		}
	case "validate":
		rep, err = pkg.Validate(ptxt, dtxt, false, ch)
	case "validate_cfg":
		rep, err = pkg.ValidateWithConfiguration(ptxt, dtxt, false, ch, simCfg{t}, reportCfg(op.RC))
	case "vcompiled":
		if handles[op.H] == nil {
			return Res{Err: true, ErrTxt: "no handle"}
		}
		rep, err = pkg.ValidateCompiled(handles[op.H], dtxt, false, ch)
	case "vcompiled_cfg":
		if handles[op.H] == nil {
			return Res{Err: true, ErrTxt: "no handle"}
		}
		rep, err = pkg.ValidateCompiledWithConfiguration(handles[op.H], dtxt, false, ch, simCfg{t}, reportCfg(op.RC))
	case "generate":
		unit, e := validator.GenerateRego(ptxt, false, ch)
		err = e
		if e == nil {
			rep = unit.Code
		}
	default:
		panic("unknown op kind " + op.Kind)
	}
	res.Report = rep
	if err != nil {
		res.Err = true
		res.ErrTxt = err.Error()
	}
	return res
}

// ---- reference model: a fresh, independent computation in another OS process ----

// refSpec is what the reference process computes: the stateless model
// ref(kind-class, profile text, data text, report config, instant).
type refSpec struct {
	Class string `json:"class"` // validate | compile | generate
	PPath string `json:"ppath"`
	DPath string `json:"dpath"`
	Fault string `json:"fault"`
	T     int64  `json:"t"`
	RC    int    `json:"rc"`
}

func opClass(kind string) string {
	switch kind {
	case "compile":
		return "compile"
	case "generate":
		return "generate"
	}
	return "validate"
}

// refMain is the body of `simharness ref`: no scheduler, no map permutation, no faults.
func refMain() {
	var sp refSpec
	if err := json.NewDecoder(os.Stdin).Decode(&sp); err != nil {
		fmt.Fprintln(os.Stderr, "ref: bad spec:", err)
		os.Exit(2)
	}
	p, err := os.ReadFile(sp.PPath)
	if err != nil {
		fmt.Fprintln(os.Stderr, "ref:", err)
		os.Exit(2)
	}
	d := ""
	if sp.DPath != "" {
		b, err := os.ReadFile(sp.DPath)
		if err != nil {
			fmt.Fprintln(os.Stderr, "ref:", err)
			os.Exit(2)
		}
		d = string(b)
		if sp.Fault != "" {
			d = applyFault(d, sp.Fault)
		}
	}
	t := instant(sp.T)
	simrt.NowHook = func() time.Time { return t }
	var res Res
	func() {
		defer func() {
			if r := recover(); r != nil {
				res.Panic = fmt.Sprint(r)
			}
		}()
		var rep string
		var err error
		switch sp.Class {
		case "validate":
			rep, err = pkg.ValidateWithConfiguration(string(p), d, false, nil, simCfg{t}, reportCfg(sp.RC))
		case "compile":
			_, err = pkg.CompileProfile(string(p), false, nil)
		case "generate":
			unit, e := validator.GenerateRego(string(p), false, nil)
			err = e
			if e == nil {
				rep = unit.Code
			}
		}
		res.Report = rep
		if err != nil {
			res.Err = true
			res.ErrTxt = err.Error()
		}
	}()
	json.NewEncoder(os.Stdout).Encode(res)
}

type refCache struct {
	dir   string
	mem   map[string]Res
	Procs int
	Hits  int
}

func newRefCache(dir string) *refCache {
	os.MkdirAll(dir, 0o755)
	return &refCache{dir: dir, mem: map[string]Res{}}
}

func (rc *refCache) get(c *Corpus, op Op) (Res, error) {
	sp := refSpec{Class: opClass(op.Kind), PPath: c.profilePath(op.P), T: op.T, RC: op.RC}
	if sp.Class == "validate" {
		sp.DPath = c.dataPath(op.P, op.D)
		sp.Fault = op.Fault
	} else {
		sp.T, sp.RC = 0, 0
	}
	if sp.Class == "validate" && (op.Kind == "validate" || op.Kind == "vcompiled") {
		sp.RC = 0
	}
	b, _ := json.Marshal(sp)
	h := sha256.Sum256(b)
	key := hex.EncodeToString(h[:12])
	if r, ok := rc.mem[key]; ok {
		rc.Hits++
		return r, nil
	}
	file := filepath.Join(rc.dir, key+".json")
	if fb, err := os.ReadFile(file); err == nil {
		var r Res
		if json.Unmarshal(fb, &r) == nil {
			rc.mem[key] = r
			rc.Hits++
			return r, nil
		}
	}
	bin := os.Args[0]
	if rb := os.Getenv("SIM_REFBIN"); rb != "" {
		bin = rb // race builds use the plain build of the same sources for references (much faster)
	}
	cmd := exec.Command(bin, "ref")
	cmd.Stdin = strings.NewReader(string(b))
	cmd.Env = append(os.Environ(), "GORACE=halt_on_error=0", "TZ=UTC")
	var stderr strings.Builder
	cmd.Stderr = &stderr
	out, err := cmd.Output()
	rc.Procs++
	if err != nil {
		return Res{}, fmt.Errorf("reference process failed: %v: %s", err, stderr.String())
	}
	var r Res
	if err := json.Unmarshal(out, &r); err != nil {
		return Res{}, fmt.Errorf("reference process output: %v", err)
	}
	tmp := fmt.Sprintf("%s.%d.tmp", file, os.Getpid())
	if os.WriteFile(tmp, out, 0o644) == nil {
		os.Rename(tmp, file)
	}
	rc.mem[key] = r
	return r, nil
}
